#!/bin/bash
# Build (incrementally) one sanitizer flavour of libxalan-c + the Xalan exe from
# the *current working tree* of $VERIF_REPO (default /repo), then the sim
# drivers against it.  Usage: build.sh asan|tsan [driver-target ...]
# Exit 0 on success, 2 on any build failure (never 1: 1 means "violation").
set -u
FLAV="${1:?flavour}"; shift
REPO="${VERIF_REPO:-/repo}"
HERE="$(cd "$(dirname "$0")" && pwd)"
BROOT="${VERIF_BUILD:-$HERE/.build}"
B="$BROOT/$FLAV"
LOG="$BROOT/$FLAV.build.log"
mkdir -p "$B/lib" "$B/sim"

case "$FLAV" in
  asan) SAN="-fsanitize=address,undefined -fno-sanitize=vptr,function -fno-sanitize-recover=null -fsanitize-recover=undefined" ;;
  tsan) SAN="-fsanitize=thread -finstrument-functions-after-inlining" ;;
  plain) SAN="" ;;
  *) echo "unknown flavour $FLAV" >&2; exit 2 ;;
esac
# -fno-sanitize-recover is overridden below: we want recover mode for all of UBSan
case "$FLAV" in asan) SAN="-fsanitize=address,undefined -fno-sanitize=vptr,function -fsanitize-recover=undefined" ;; esac

CXXFLAGS="-O1 -g -DNDEBUG -fno-omit-frame-pointer -fno-optimize-sibling-calls -DAPACHE_XALAN_C_VERIF=1 -Wno-error -w $SAN"
export ASAN_OPTIONS="detect_leaks=0"
export UBSAN_OPTIONS="print_stacktrace=0"

(
  echo "== build $FLAV from $REPO at $(date -u +%FT%TZ)"
  if [ ! -f "$B/lib/build.ninja" ] || ! grep -q "CMAKE_HOME_DIRECTORY:INTERNAL=$REPO\$" "$B/lib/CMakeCache.txt" 2>/dev/null || [ "$(cat "$B/flags.stamp" 2>/dev/null)" != "$CXXFLAGS" ]; then
    rm -rf "$B/lib"; mkdir -p "$B/lib"
    cmake -G Ninja -S "$REPO" -B "$B/lib" \
      -DCMAKE_BUILD_TYPE=None \
      -DCMAKE_C_COMPILER=clang -DCMAKE_CXX_COMPILER=clang++ \
      -DCMAKE_CXX_FLAGS="$CXXFLAGS" -DCMAKE_C_FLAGS="-O1 -g $SAN" \
      -DCMAKE_EXE_LINKER_FLAGS="$SAN" -DCMAKE_SHARED_LINKER_FLAGS="$SAN" \
      -Dtranscoder=icu -Dmessage-loader=inmemory || exit 2
    rm -rf "$B/sim"; mkdir -p "$B/sim"
    printf '%s' "$CXXFLAGS" > "$B/flags.stamp"
  fi
  cmake --build "$B/lib" --target xalan-c Xalan -- -j"${VERIF_JOBS:-16}" || exit 2
) >"$LOG" 2>&1 || { echo "BUILD-FAILED flavour=$FLAV (see $LOG)"; tail -30 "$LOG"; exit 2; }

# drivers
(
  if true; then
    cmake -G Ninja -S "$HERE/sim" -B "$B/sim" \
      -DCMAKE_BUILD_TYPE=None -DCMAKE_CXX_COMPILER=clang++ \
      -DVERIF_FLAVOUR="$FLAV" -DVERIF_SAN="$SAN" \
      -DXALAN_SRC="$REPO/src" -DXALAN_BLD="$B/lib" || exit 2
  fi
  if [ $# -gt 0 ]; then
    cmake --build "$B/sim" --target "$@" -- -j"${VERIF_JOBS:-16}" || exit 2
  else
    cmake --build "$B/sim" -- -j"${VERIF_JOBS:-16}" || exit 2
  fi
) >>"$LOG" 2>&1 || { echo "BUILD-FAILED flavour=$FLAV drivers (see $LOG)"; tail -40 "$LOG"; exit 2; }
exit 0
