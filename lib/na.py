"""Properties not claimed, with reasons (DESIGN.md section 2)."""
_PURE = 'a pure function of its inputs with no schedule, clock, fault or operation history in it: not a target for deterministic simulation (DESIGN.md section 2); no other technique is substituted'
NOT_APPLICABLE = {
    'C01': 'XSLT conformance is ' + _PURE,
    'C02': 'XPath value of (expression, document, context) is ' + _PURE,
    'C08': 'output options x result tree -> bytes is ' + _PURE + '; its only I/O dimension (buffers, sinks) is covered by C04',
    'C09': 'pattern matching vs expression evaluation is ' + _PURE,
    'C10': 'template conflict resolution over (rule set, node) is ' + _PURE,
    'C11': 'agreement of the six evaluation entry points on (expression, context) is ' + _PURE,
    'C12': 'node-set order/uniqueness for (document, expression) is ' + _PURE + '; the insertion history is fixed by the expression, not by any environment choice',
    'C13': 'whitespace stripping equivalence over (stylesheet, document) is ' + _PURE,
    'C14': 'namespace fix-up over (stylesheet, document) is ' + _PURE,
    'C15': 'key() over (declaration, document, value) is ' + _PURE + '; the cross-transformation residue (stale key tables after reuse) is exercised under C06',
    'C16': 'sort order over (node list, keys) is ' + _PURE,
    'C18': 'number<->string conversion is a pure function of a double or a string (only the C locale is installed, so not even the process locale can be varied): not a simulation target',
}
# claimed in DESIGN.md; listed here only until their check is registered in props.py
_NY = 'claimed in DESIGN.md; its simulation check is not registered yet in this commit (work in progress)'
NOT_YET = {k: _NY for k in ('C03', 'C04', 'C05', 'C06', 'C07', 'C17', 'C19', 'C20')}
