ID = 'C05'
_REAL = ['libxalan-c (rebuilt from /repo working tree, clang -O1 -DNDEBUG, ASan+UBSan)', 'Xalan command-line executable (rebuilt, run as a child process on scratch files in 1 of 30 runs)', 'Xerces-C 3.2.4 (system binary, not instrumented)', 'ICU 72 (system binary, not instrumented)']
PROP = dict(
    driver='c05', flavour='asan', level='exploration',
    technique='deterministic simulation of the byte transports: one seeded (stylesheet, source, params) tuple executed through 4-7 seeded (source form x stylesheet form x target form x API layer) combinations with benign transport perturbations (short reads, buffer sizes, chunking); byte-identity / canonical-tree equality oracles; one identical destructive input fault in a fifth of the runs',
    level_text='Seeded exploration of the form matrix: source as stream, InputSource/BinInputStream, file name, parseSource native / Xerces DOM, wrapped Xerces DOM (XercesDOMWrapperParsedSource), XalanDocumentBuilder fed by SAX2, XalanSourceTreeWrapperParsedSource; stylesheet as stream, InputSource, file, compiled, xml-stylesheet PI; target as callback, std::ostream, FILE*, file name, Writer over a XalanOutputStream with per-run buffer sizes, FormatterToXercesDOM, FormatterToSourceTree; layers C++ API, C API (to data, to handler, to file), Xalan executable. Oracles: all forms agree on success/failure; forms differing only in target/layer/perturbation are byte-identical; forms differing in source or stylesheet form have equal canonical trees (attributes as sets, namespace declarations ignored, adjacent text merged); flush handler called after the last write; under one destructive input fault every form fails alike. One run in eight is a self-reference tuple: real files in one directory, the source named by plain path or by URL, the stylesheet reaching the source again through document() and observing node identity.',
    level_note='Documents are generated without CDATA sections and entity references (as the property allows for DOM forms). The canonical tree is computed by re-parsing result bytes with Xerces\' DOM parser (independent of the serializers) or by walking the DOM / source-tree target. The two documented wrapper data-model deviations (DocumentType node visible to node(), namespace axis) are exercised in 1/12 of the runs each.',
    design_ref='DESIGN.md section 7 (C05), 3.2',
    run_timeout=150,
    runs=dict(quick=3000, thorough=60000),
    nontrivial_counter=['pairs_compared'],
    rule='One evaluation = one tuple through 4-7 forms (first = reference: stream, stream, callback, C++). distinct_nontrivial = number of distinct trace hashes (per-form status and output hash). State tuples = distinct (source form, stylesheet form, target form, layer) combinations executed.',
    real=_REAL,
    simulated=['input byte sources (stream / BinInputStream with short reads; scratch files for path forms)', 'EntityResolver over SimFS', 'output sinks (callback, ostream, fopencookie FILE*, XalanOutputStream subclass with per-run buffer sizes)', 'clock()/time()/rand() (SimClock)'],
    assumptions=['attribute order and namespace-declaration placement are not part of the result tree (XPath data model)', 'generate-id() is excluded from compared output (prints addresses)'],
    shrink=dict(lists=[['forms']], minlen={'forms': 2}, texts=[['doc'], ['xsl']], text_tries=40),
    shrink_budget=200,
)
