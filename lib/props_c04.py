"""C04 — XML output is well-formed and parses back to the result tree (configuration only, no logic)."""

ID = 'C04'

PROP = dict(
    driver='c04', flavour='asan', level='exploration',
    technique='deterministic simulation: seeded SAX-event scripts (result trees by value, characters placed at writer/stream/transcoder buffer boundaries) '
              'driven through the real serializer stack into a simulated sink with seeded buffer sizes, explicit flushes and sink faults; '
              'round-trip oracle through an independent parser (Xerces SAX2), knob-independence, serializer-agreement and sink-fault oracles; ASan/UBSan',
    level_text='Seeded exploration of (result tree, encoding, XML version, cdata-section-elements, serializer, buffer size, transcoder block size, flush placement, sink fault). '
               'Character picks cover whole blocks (Latin-1, Latin Extended, Greek, Cyrillic, Hebrew, Thai, punctuation, kana, CJK, fullwidth forms) under thirteen encodings plus an unsupported name; one script in three has a configuration in which stream and writer serve a document in another encoding first. '
               'One script is executed under 4-8 configurations: XalanXMLSerializerFactory product (UTF-8, UTF-16 and other-encoding writer families) x 3 knob settings (buffer size, transcoder block size, flush points, content of the two memory units behind each character buffer), '
               'FormatterToXML x 1-2, every fourth run the whole XalanTransformer pipeline (identity-style stylesheet with xsl:output) in callback and stream form, '
               'and in 35% of the runs one configuration again under a sink fault. Oracles: the bytes parse (Xerces SAX2, namespaces on) to exactly the scripted tree; '
               'for trees XML or the encoding cannot represent, an error or a correct round trip; byte-identical output for every (buffer, block, flush) setting; '
               'wherever the factory product round-trips FormatterToXML gives the same tree; no allocation beyond 24 MiB; a sink fault surfaces as an exception, the accepted bytes are a prefix of the fault-free output, destructors are quiet and a new serializer works. '
               'Sampling, not exhaustive: a clean batch is evidence, not proof.',
    level_note='Trusts: Xerces-C SAX2 parser as the independent reader (uninstrumented system binary); ICU decides which characters an encoding can represent (defines only where an error is an acceptable outcome); '
               'indent="yes", doctype and standalone output are not generated; scripts <= 60 events, <= 3000 UTF-16 units.',
    design_ref='DESIGN.md section 7 (C04), 3.2, 5, 6',
    run_timeout=200,
    runs=dict(quick=40000, thorough=600000),   # measured on 16 cores: ~650-900 scripts/s; quick ~60 s + ~0.7 s per not-yet-known finding for gate/minimise/replay
    nontrivial_counter=['faults_fired', 'probe:straddle-512', 'probe:explicit-flush'],
    rule='One evaluation = one script of SAX events (startElement+attributes incl. xmlns declarations, characters, cdata, ignorableWhitespace, comment, processingInstruction, endElement, flush) '
         'describing a namespace-well-formed tree, with text/attribute values drawn per script from 1-5 character classes '
         '{ascii, < &, >, quotes, ], TAB, LF, CR, C0 controls, U+0000, C1 controls, NEL, Latin-1, BMP, U+2028, supplementary, lone surrogates, U+FFFE/FFFF} and filler runs sized so that the interesting '
         'character lands within +-4 units of a 512/1024 writer-buffer boundary, of the XalanOutputStream buffer size b or of the transcoder block size t; '
         'encoding from {UTF-8, utf-8, UTF-16, UTF-16LE, UTF-16BE, ISO-8859-1, US-ASCII, windows-1252, Shift_JIS, ISO-8859-2, GB18030, an unknown name}; version 1.0/1.1; cdata-section-elements in 40% of the scripts. '
         'The script is executed under every configuration of the plan (serializer x (b,t) from {1,2,3,5,16,64,511,512,513,1024,2048/4096} x up to 3 explicit flush points x two code units placed behind every character buffer x optional sink fault short/throw/bad/flush-fail at a seeded write/flush ordinal). '
         'distinct_nontrivial = number of distinct run trace hashes (hash over per-configuration output hashes, fault outcomes and violations) among runs in which a sink fault fired, an explicit flush happened mid-document, or a multi-unit character met a 512-unit writer buffer boundary.',
    real=['libxalan-c (rebuilt from /repo working tree, clang -O1, sanitizer-instrumented): XalanXMLSerializerFactory, FormatterToXMLUnicode, XalanUTF8Writer/XalanUTF16Writer/XalanOtherEncodingWriter, FormatterToXML, XalanOutputStreamPrintWriter, XalanOutputStream (buffering + transcoding), XalanTransformer/XSLTEngineImpl (pipeline runs)',
          'Xerces-C 3.2.4 (system binary, not instrumented): transcoders used by XalanOutputStream, SAX2 parser used as the oracle',
          'ICU 72 (system binary, not instrumented)'],
    simulated=['output sink (SimSink behind a XalanOutputStream subclass / the XalanTransformer output callback: records chunks, injects short count, exception, refused write, failed flush)',
               'XalanOutputStream buffer size and transcoder block size (per-configuration knobs)', 'explicit flush placement',
               'the result tree (events by value, fed through the FormatterListener interface or carried by a generated source document + identity stylesheet)',
               'input streams of pipeline runs (std::istream over in-memory bytes)'],
    assumptions=['the Xerces-C SAX2 reader reports exactly the XML Information Set of the bytes it is given (it shares no code with the serializers under test)',
                 'ICU decides which code points an encoding can represent; this only widens/narrows the set of trees for which an error is accepted instead of a round trip',
                 'a FormatterListener receives character data with an explicit length and may not let its output depend on what lies behind it (the driver places seeded units such as "]>" there and demands identical output)',
                 'FormatterToXML is not the xml output method of the engine: it is judged by agreement with the factory product (and by knob independence, sink faults, allocation bound), not by the error-or-round-trip rule',
                 'comment/PI data is legal for the XPath data model (no "--", no trailing "-", no "?>", no leading white space in PI data): the interpreter repairs scripts the way xsl:comment / xsl:processing-instruction do',
                 'indent="no", no doctype, no standalone: indentation is the business of another property'],
    shrink=dict(lists=[['configs'], ['events'], ['cdata_elems'], ['events', '*', 'attrs'], ['events', '*', 'text'], ['events', '*', 'attrs', '*', 'v']],
                minlen={'configs': 1},
                ints=[['events', '*', 'text', '*', 'n'], ['events', '*', 'attrs', '*', 'v', '*', 'n'], ['configs', '*', 'b'], ['configs', '*', 't']]),
    shrink_budget=120,
)
