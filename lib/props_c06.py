ID = 'C06'
_REAL = ['libxalan-c (rebuilt from /repo working tree, clang -O1 -DNDEBUG, ASan+UBSan)', 'Xerces-C 3.2.4 (system binary, not instrumented)', 'ICU 72 (system binary, not instrumented)']
PROP = dict(
    driver='c06', flavour='asan', level='exploration',
    technique='deterministic simulation: seeded API histories (incl. transformations aborted part-way by message/XPath/encoding/name/callback/source/resolver/sink faults) on one long-lived transformer, refinement check against a fresh-transformer reference model, address-reuse allocator, ASan/UBSan',
    level_text='Seeded exploration of operation histories (<= 18 ops quick, <= 30 thorough) on one XalanTransformer: compile, parse, transform in several source/stylesheet/target forms with at most one abort cause, set/clear params (numbers, strings, expressions, a node of a parsed source that is still alive), install/uninstall external function, output options and what the getters report about them, trace listeners, destroy handles. One run in three uses twin documents (same shape, element names rotated, white space between all tags) with last-freed-first address reuse, so that a node address recurs under another name in the next source. Oracle per transformation: status, bytes delivered to the sink (also the prefix of aborted ones) and presence of an error message equal those of a freshly created transformer given the recorded sticky settings and the same bytes and fault.',
    level_note='The reference model is the library itself on a fresh object (differential), so a defect that shows identically on fresh and reused transformers is invisible here. Allocation failure is deliberately not injected (C19 only promises a new transformer works after it). Xerces-C/ICU uninstrumented.',
    design_ref='DESIGN.md section 7 (C06), 3.1 (address reuse), 5',
    run_timeout=150,
    env={'VERIF_LSAN': '1'},      # LeakSanitizer check after every run: memory obtained outside the simulated manager (ICU objects, global new) and lost
    runs=dict(quick=2500, thorough=40000),
    nontrivial_counter=['transforms'],
    rule='One evaluation = one history. distinct_nontrivial = number of distinct trace hashes among histories with at least one transformation (hash over every op outcome and both output hashes of every compared pair).',
    real=_REAL,
    simulated=['MemoryManager (SimMemoryManager; LIFO address reuse with 0xDD fill in half of the runs)', 'input byte sources with fault scripts', 'EntityResolver over SimFS with missing/throwing resources', 'output sinks with short/throw/bad/flush-fail faults', 'external function object failing at its n-th call', 'clock()/time()/rand() (SimClock)'],
    assumptions=['parameters persist until clearStylesheetParams() (documented, JIRA-451); installed functions and output options persist; nothing else carries over',
                 'a handle built before an op is used with the bytes it was built from; faults attached to that op then do not apply to it (same rule on both sides of the comparison)'],
    shrink=dict(lists=[['ops']], minlen={'ops': 1}, texts=[['docs', '*'], ['sheets', '*']], text_tries=20),
    shrink_budget=200,
)
