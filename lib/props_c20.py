"""C20 — Xalan's containers and string class behave like their standard models (configuration only)."""

ID = 'C20'

PROP = dict(
    driver='c20', flavour='asan', level='exploration',
    technique='deterministic simulation: seeded operation histories on XalanMap/XalanSet/XalanVector/XalanList/XalanDeque/XalanDOMString '
              '(+ XalanDOMStringPool, XalanDOMStringHashTable, XalanBitmap, XalanObjectCache) instantiated from /repo headers on a simulated '
              'MemoryManager, executed in lock-step against std:: reference models, with per-operation allocation-failure injection, ASan/UBSan, '
              'Xalan header assertions enabled',
    level_text='Seeded sampling of operation histories (8..80 operations, arguments stored by value, interpreted modulo the current contents and  With a second manager, copy construction into it must take nothing from the source container manager. Strings are also given their own characters by pointer (insert, append, assign), and compare is called with counts that reach past the other string.'
               'clamped to the preconditions the headers assert) over 10 container kinds x 3 element types (int, XalanDOMString, a counting type that '
               'owns memory from the simulated manager) with small knobs (initial buckets, load factor, erase threshold, degenerate hash, block size, '
               'capacity). After EVERY operation all observables (size, empty, iteration forwards/backwards, every index, front/back, membership and '
               'value of every pool key, returned iterators/values, c_str() terminator) are compared with std::map/std::vector/std::list/std::deque/'
               'std::set/std::u16string. Mode A: no faults, strict equality, zero outstanding blocks and zero live counting elements at the end. '
               'Mode B: the k-th allocation inside marked operations is refused; the container may show the state before, the state after, or (for '
               'multi-element operations) a prefix; anything else, an inconsistent observable, an element imbalance, a crash or a sanitizer report '
               'is a violation; the model is then re-synchronised and the history continues. Sampling, not exhaustive. In a third of the histories of vector, deque, map, set and string the second container lives on a memory manager of its own (swap exchanges managers; every block must return to the manager it came from).',
    level_note='Trusts: std:: containers as reference; the refused allocation throws xercesc::OutOfMemoryException; iteration order of XalanMap/'
               'XalanSet is treated as unspecified (compared as sets); operations std allows but the Xalan headers exclude by assertion are not generated.',
    design_ref='DESIGN.md section 7 (C20), 3.1, 5, 6.2',
    runs=dict(quick=64000, thorough=600000),
    nontrivial_counter=['fault:alloc-fail'],
    rule='One evaluation = one history: one container kind, one element type, one mode (A fault-free / B with allocation faults attached to '
         'operations), knobs and 8..80 operations drawn from the run seed; executed operation by operation against the std:: model with a full '
         'comparison of observables after each operation. distinct_nontrivial = number of distinct trace hashes (hash over per-operation '
         '(kind, fault fired/surfaced, resulting size, content hash)) among histories in which at least one injected allocation failure fired. '
         'state_tuples = distinct (container, operation kind, state class) triples executed.',
    real=['XalanMap/XalanSet/XalanVector/XalanList/XalanDeque/XalanObjectCache templates instantiated from /repo/src/xalanc/Include (assertions enabled)',
          'XalanDOMString, XalanDOMStringPool, XalanDOMStringHashTable, XalanBitmap from libxalan-c (rebuilt from /repo working tree, clang -O1, ASan+UBSan)',
          'Xerces-C 3.2.4 transcoder (system binary, not instrumented)'],
    simulated=['MemoryManager (SimMemoryManager: block table, k-th allocation of an operation refused, foreign/double-free detection, outstanding-block count)',
               'element type (counting type: live-instance accounting, double-destruction detection, fallible copy construction and assignment)',
               'hash functor (native / id mod 3 / constant) to force collisions'],
    assumptions=['std::map, std::vector, std::list, std::deque, std::set and std::u16string are correct reference models',
                 'a refused allocation throws xercesc::OutOfMemoryException; exactly the k-th allocation of the marked operation is refused, later ones succeed',
                 'the assert()s in the Xalan headers are the documentation of the narrower contracts: the interpreter clamps every argument so that they hold; an assertion firing in the function the interpreter called is a harness error (exit 2), one firing deeper inside the library is reported as a violation',
                 'only the C locale is installed: narrow-character (transcoding) operations are exercised with ASCII text only',
                 'strings containing embedded NUL code units are not passed through the NUL-terminated-pointer comparison API'],
    # the driver resolves the frames of a report itself through one llvm-symbolizer per worker; letting the sanitizer
    # runtime start a symbolizer for every crashed history costs more than the histories
    env={'ASAN_OPTIONS': 'symbolize=0'},
    shrink=dict(lists=[['ops']], minlen={'ops': 1}, ints=[['ops', '*', 'fault']]),
    shrink_budget=160,
)
