"""Per-property configuration of the checks (no logic)."""

_REAL_ALL = ['libxalan-c (rebuilt from /repo working tree, clang -O1, sanitizer-instrumented)', 'Xerces-C 3.2.4 (system binary, not instrumented)', 'ICU 72 (system binary, not instrumented)']

PROPS = {
    'C19': dict(
        driver='c19', flavour='asan', level='fault_enumeration',
        technique='deterministic simulation: seeded API scenarios on a simulated MemoryManager with single-allocation-failure enumeration (forked child per fault), fresh-transformer recovery oracle, ASan/UBSan',
        level_text='Enumeration of single allocation faults (every allocation index in thorough tier, seeded sample in quick tier) over seeded scenarios of public-API operations on one simulated memory manager; oracle: no abnormal termination, no foreign/double free, no sanitizer report, failure surfaces as exception/status, fault-free balance is zero, a new transformer on the same manager works and is balanced. Sampling of scenarios, exhaustive over faults within a scenario (thorough). Stylesheets include one whose first child is an xsl:include of a file that is missing or not XML from its first byte, so that a refused allocation can land in the clean-up of a compile that fails inside the include.',
        level_note='Trusts: the refused allocation throws xercesc::OutOfMemoryException; Xerces-C/ICU are uninstrumented system binaries; scenarios come from the generator in sim/gen.hpp; one fault per execution.',
        design_ref='DESIGN.md section 7 (C19), 3.1, 5',
        runs=dict(quick=192, thorough=1920), nchunks=dict(quick=8, thorough=16),
        nontrivial_counter=['faults_injected'],
        rule='One evaluation = one scenario (seeded history of new/compile/parse/transform/destroy/delete ops over generated '
             'stylesheets and documents on one SimMemoryManager) executed fault-free and then once per selected single fault (op i, k-th allocation); '
             'quick: every k of one seeded op plus 120 seeded (i,k) pairs per scenario; thorough: every (i,k) of every op including the destructor. '
             'Each (scenario, fault) runs in a forked child. distinct_nontrivial = number of distinct scenario trace hashes (hash over the per-fault outcome list) among scenarios in which at least one fault fired.',
        real=_REAL_ALL, simulated=['MemoryManager (SimMemoryManager: block table, k-th allocation refusal, foreign/double-free detection)', 'input streams (std::istream over in-memory bytes)', 'entity resolver (SimFS)', 'output sink (callback / ostream recording sink)'],
        assumptions=['a refused allocation throws xercesc::OutOfMemoryException (the contract of XalanMemoryManagerDefault and of the SimpleTransform sample manager)',
                     'Xerces-C and ICU internals are not instrumented; allocations they make through the supplied manager are counted and can be refused, allocations they make elsewhere are invisible',
                     'single faults only: exactly one allocation is refused per execution (the property quantifies over the k-th allocation)'],
        shrink=dict(lists=[['ops']], minlen={'ops': 1}, texts=[['docs', '*'], ['sheets', '*']], text_tries=25),
        shrink_budget=120,
    ),
}

# per-property files lib/props_cNN.py may add or override entries: each defines PROP = {...} and ID = 'Cnn'
import glob as _glob, os as _os, importlib.util as _ilu
for _f in sorted(_glob.glob(_os.path.join(_os.path.dirname(_os.path.abspath(__file__)), 'props_c*.py'))):
    _spec = _ilu.spec_from_file_location(_os.path.basename(_f)[:-3], _f)
    _m = _ilu.module_from_spec(_spec)
    _spec.loader.exec_module(_m)
    PROPS[_m.ID] = _m.PROP
