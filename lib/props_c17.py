ID = 'C17'
_REAL = ['libxalan-c (rebuilt from /repo working tree, clang -O1 -DNDEBUG, ASan+UBSan)', 'Xerces-C 3.2.4 (system binary, not instrumented)', 'ICU 72 (system binary, not instrumented)']
PROP = dict(
    driver='c17', flavour='asan', level='exploration',
    technique='deterministic simulation: seeded visiting orders (history of numbered nodes) x simulated clock modes (LRU stamp of the match-pattern cache) x address-reuse allocator on one transformer; oracle = independent implementation of XSLT 1.0 section 7.7 in the driver + cross-history equality + format decoding',
    level_text='Seeded exploration: a generated document (up to 150 elements, a quarter of the runs with > 50 distinct element names so the 50-entry pattern cache evicts) is numbered by 2-4 xsl:number parameter sets (level single/multiple/any; count absent, name, *, a|b, a[@k], *[@k]; from absent or a name; format token 1, 01, a, A, i, I) once in document order with an advancing clock and then in 2-4 other seeded visiting orders (random rank permutation, reverse, deepest-first) under clock modes advance/coarse/stall/-1/backward jump, all on the same transformer; then a second document on the same transformer vs a fresh one. Oracles: value per node equals the driver\'s own section 7.7 computation where the Recommendation is unambiguous; value per node identical across histories and clock modes; formatted string decodes to the same list; no sanitizer report. One run in four uses prefixed names with subtrees re-binding the prefix (the oracle works on expanded names); a fifth of the instructions number the attribute k of every element that has one. Further sets: format strings with a separator of their own between two tokens (ASCII punctuation or a character of the XML Extender class), and count=node() with xsl:strip-space over a document with white space between all tags, where the white-space-only text nodes of stripped elements must not be counted.',
    level_note='Scoped (DESIGN.md section 2): pattern shapes as listed; documents without namespaces; cases the Recommendation leaves open (current node matches from, no from match before/above the node, level=any counting zero nodes) are checked for history independence only. The in-library XPath evaluator is not trusted: the oracle walks the driver\'s own parse of the document.',
    design_ref='DESIGN.md section 7 (C17), 3.3',
    run_timeout=150,
    runs=dict(quick=4000, thorough=80000),
    nontrivial_counter=['transforms'],
    rule='One evaluation = one (document, parameter sets, 3-5 histories). distinct_nontrivial = number of distinct trace hashes (per-history output hashes). State tuples = (level, count shape, from present, token) combinations reached.',
    real=_REAL,
    simulated=['clock() (SimClock: advancing, coarse, stalled, -1, backward jump)', 'MemoryManager (LIFO address reuse in half of the runs)', 'input/output byte transports (in-memory)'],
    assumptions=['XSLT 1.0 section 7.7 as read in sim/c17.cpp:expected(); ambiguous cases are excluded from the definition oracle, not from the history oracle'],
    shrink=dict(lists=[['sets'], ['histories']], minlen={'sets': 1, 'histories': 1}, texts=[['doc']], text_tries=40),
    shrink_budget=200,
)
