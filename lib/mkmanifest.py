#!/usr/bin/env python3
"""Regenerates /verif/MANIFEST.json from lib/props.py and lib/na.py (so the two never drift)."""
import json, os, sys
HERE = os.path.dirname(os.path.dirname(os.path.abspath(__file__)))
sys.path.insert(0, os.path.join(HERE, 'lib'))
from props import PROPS
from na import NOT_APPLICABLE, NOT_YET
from registered import REGISTERED

checks = []
for pid in sorted(PROPS):
    if pid not in REGISTERED:
        continue
    c = PROPS[pid]
    checks.append(dict(
        property_id=pid,
        quick_cmd='./check %s --tier quick' % pid,
        thorough_cmd='./check %s --tier thorough' % pid,
        evidence_file='evidence/%s.json' % pid,
        replay_cmd_template='./check %s --replay {path}' % pid,
        engine='xalan-dst',
        level_claimed=dict(category=c['level'], text=c['level_text'], design_ref=c['design_ref']),
        level_note=c['level_note'],
        technique=c['technique'],
    ))
na = [dict(property_id=k, reason=v) for k, v in sorted(NOT_APPLICABLE.items())]
na += [dict(property_id=k, reason=v) for k, v in sorted(NOT_YET.items()) if k not in REGISTERED]
m = dict(
    version=1,
    setup_cmd='./setup.sh',
    hooks=dict(guard='APACHE_XALAN_C_VERIF', enable='-DAPACHE_XALAN_C_VERIF=1 is passed to every verification build by build.sh (no source hook exists: every seam is an interface the library already takes from its caller, a libc symbol, or a compiler flag)',
               baseline_off_cmd='./baseline_off.sh', source_commits=[], add_only=True),
    engines=[dict(name='xalan-dst', path='check', serves_properties=sorted(REGISTERED),
                  kind_free_text='deterministic simulation with fault injection: seeded plans executed by C++ drivers (sim/) against sanitizer builds of libxalan-c rebuilt from /repo; Python master (check) distributes runs, gates, minimises and replays violations, writes evidence')],
    checks=checks,
    not_applicable=na,
    notes='See DESIGN.md. Exit codes of every check: 0 held, 1 violation (VIOLATION line + replay file), 2 no verdict (build failure / nondeterminism / harness error). KNOWN_FINDINGS.txt lists recorded and fixed findings.',
)
json.dump(m, open(os.path.join(HERE, 'MANIFEST.json'), 'w'), indent=1)
print('MANIFEST.json: %d checks, %d not applicable' % (len(checks), len(na)))
