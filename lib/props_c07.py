ID = 'C07'
_REAL = ['libxalan-c (rebuilt from /repo working tree, clang -O1 -DNDEBUG, ThreadSanitizer + compiler-inserted function-entry yield points)', 'Xerces-C 3.2.4 (system binary, not instrumented)', 'ICU 72 (system binary, not instrumented)', 'caller threads (real std::thread, exactly one runnable at a time)']
PROP = dict(
    driver='c07', flavour='tsan', level='exploration',
    technique='deterministic simulation: real caller threads serialised by a seeded scheduler (sequential / random walk / PCT) with yield points at allocator, sink, resolver and every libxalan-c function entry; hand-over hidden from ThreadSanitizer so it still reports happens-before races; sequential baseline as output oracle; explicit schedule in the replay file',
    level_text='Seeded exploration of schedules: 2-4 tasks (twins with identical inputs), each with its own transformer and memory manager, transform over shared compiled stylesheets and shared parsed sources (native tree and thread-safe Xerces-DOM wrapper) built by an owner transformer. Oracles: no ThreadSanitizer report, every task output and status equals the sequential baseline. Stylesheets force one lazily-initialised facility per run in rotation (keys, the three xsl:number levels, id(), document(), format-number/decimal-format, sort, attribute sets, modes, EXSLT sets, node-set). One run in four refuses one allocation in the shared objects\' manager during the concurrent phase (judged there: no thread left waiting for a mutex a finished task still owns, no race, no sanitizer error); wrappers are built fully (the XercesDOMWrapperParsedSource form) or lazily with threadSafe set; one document in eight is 104 levels deep. In a third of the runs every reader installs an extension function of its own under one name on its transformer; the answer each gets must be its own.',
    level_note='ThreadSanitizer sees only instrumented code (libxalan-c and the driver): races entirely inside Xerces-C/ICU are invisible. Preemption only at function entries, allocator, sink and resolver calls. The non-thread-safe wrapper mode (parseSource(useXercesDOM=true)) is excluded as the property states. Sampling, not proof.',
    design_ref='DESIGN.md section 7 (C07), 3.4',
    runs=dict(quick=3000, thorough=60000),
    nontrivial_counter=['switches'],
    rule='One evaluation = one (workload, schedule): sequential baseline on its own shared objects, then the seeded schedule on fresh shared objects. distinct_nontrivial = number of distinct trace hashes (step counts, switch count, schedule hash = hash of the (step, task) hand-over sequence, per-task output hashes) among runs with at least one hand-over.',
    real=_REAL,
    simulated=['the choice of which caller thread runs (SimScheduler, raw futex hand-over)', 'MemoryManager per task (yield point)', 'owner MemoryManager (counts allocations made on behalf of readers)', 'output sink per task (yield point)', 'EntityResolver per task over SimFS (yield point)', 'clock()/time()/rand() (SimClock)', 'Xerces mutex manager wrapped (no task is parked inside a Xerces critical section)'],
    assumptions=['one transformer per thread; compiled stylesheets and parsed sources may be shared without synchronisation (docs/faq.md)',
                 'a race between Xalan code and Xerces code is seen from the Xalan side only'],
    shrink=dict(lists=[['schedule'], ['tasks', '*']], minlen={'schedule': 1, 'tasks/*': 1}, texts=[['docs', '*'], ['sheets', '*']], text_tries=12),
    shrink_budget=80,
    env={'TSAN_OPTIONS': 'halt_on_error=0:exitcode=0:report_signal_unsafe=0:history_size=4'},
)
