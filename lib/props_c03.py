ID = 'C03'
_REAL = ['libxalan-c (rebuilt from /repo working tree, clang -O1 -DNDEBUG, ASan+UBSan)', 'Xerces-C 3.2.4 (system binary, not instrumented)', 'ICU 72 (system binary, not instrumented)']
PROP = dict(
    driver='c03', flavour='asan', level='exploration',
    technique='deterministic simulation: seeded fault operators (truncate/flip/zero/tear/dup/swap/read-error/short-read) on valid inputs in transit, failing sinks and resolvers, simulated clock modes; per-op oracle + bounded-liveness follow-up on the same transformer; ASan/UBSan',
    level_text='Seeded exploration: valid generated (stylesheet, document, resources) tuples are pushed through every byte-taking entry point (transform overloads in 8 source x 4 stylesheet x 5 target forms, compileStylesheet, parseSource native/Xerces, parameter expressions, XPathEvaluator, both C APIs) while one fault per op hits the bytes in transit, the sink, the resolver or the clock. Oracles: call returns; non-zero status has a message; only documented exceptions escape; no ASan/UBSan report; benign perturbations change nothing; the same transformer then performs a known-good transformation with the reference output; memory-manager balance at destruction. XPath expressions for the evaluator, the C API and parameter expressions come from a fixed pool or are drawn from the XPath grammar (type-correct, or "wild": wrong arity, unknown names, extreme literals); a compiled XPath the caller keeps must give the same answer after a later createXPath() of the same evaluator failed. The evaluator runs over the native source tree or over a Xerces DOM parsed and wrapped by XercesParserLiaison, with the document given back through destroyDocument() in half of the operations. LeakSanitizer runs after every run for memory obtained outside the simulated manager (a leak counts when a library frame is in its stack, or when the stack is cut off inside the C++ runtime with no Xerces-C/ICU frame in sight); blocks of an adopted DOM document still outstanding count against the adopter. An empty string as the expression of a declared parameter must be refused. The XPath C API is told the expression is in UTF-8, UTF-16, ISO-8859-1, US-ASCII or an unknown encoding.',
    level_note='Scoped (DESIGN.md section 2): inputs are those reachable by fault operators from valid seeds plus fixed numeric/nesting extremes, not all byte strings. Xerces-C/ICU uninstrumented. Nesting capped at 200 so stack exhaustion inside Xerces is not provoked.',
    design_ref='DESIGN.md section 7 (C03), 3.2, 3.3, 5',
    run_timeout=150,
    env={'VERIF_LSAN': '1'},      # LeakSanitizer check after every run: memory obtained outside the simulated manager (ICU objects, global new) and lost
    runs=dict(quick=4000, thorough=100000),
    nontrivial_counter=None,
    rule='One evaluation = one run: a long-lived transformer executes 1-6 seeded ops (each with at most one destructive fault and always-on benign perturbations) each followed by a known-good transformation. distinct_nontrivial = number of distinct trace hashes (hash over per-op status/exception/output-hash/follow-up outcome).',
    real=_REAL,
    simulated=['MemoryManager (SimMemoryManager, byte budget 512 MiB)', 'input byte sources (std::istream / xercesc::InputSource+BinInputStream over in-memory bytes with fault scripts; scratch files for path forms)', 'EntityResolver over SimFS (document(), xsl:import/include)', 'output sinks (callback, std::ostream, fopencookie FILE*, XalanOutputStream subclass with per-run buffer sizes)', 'clock()/time()/rand() (SimClock, interposed symbols)'],
    assumptions=['faults are applied to bytes of valid inputs in transit; arbitrary byte strings are out of scope of this family (a coverage-guided fuzzer would be the right tool)',
                 'a user callback that throws (sink-throw) may see its own exception escape: that is the caller\'s exception, not a library failure',
                 'XPathEvaluator reports errors by throwing XSLException/XMLException/SAXException (its documented interface)'],
    shrink=dict(lists=[['ops']], minlen={'ops': 1}, texts=[['doc'], ['xsl']], text_tries=30),
    shrink_budget=150,
)
