"""Checks that are finished and registered in MANIFEST.json."""
REGISTERED = ['C03', 'C04', 'C05', 'C06', 'C07', 'C17', 'C19', 'C20']
