"""Generic plan minimiser: ddmin-style deletion over configured list paths, then attached faults,
then XML-aware text reduction of configured text paths, then integer reduction.  No randomness."""
import copy, re


def abbreviate(plan, limit=400):
    def ab(x):
        if isinstance(x, str):
            return x if len(x) <= limit else x[:limit] + '...(%d bytes)' % len(x)
        if isinstance(x, list):
            return [ab(v) for v in x[:12]] + (['...(%d items)' % len(x)] if len(x) > 12 else [])
        if isinstance(x, dict):
            return {k: ab(v) for k, v in x.items()}
        return x
    return ab(plan)


def _get(plan, path):
    cur = plan
    for k in path:
        if isinstance(cur, dict):
            if k not in cur:
                return None
            cur = cur[k]
        elif isinstance(cur, list):
            if not isinstance(k, int) or k >= len(cur):
                return None
            cur = cur[k]
        else:
            return None
    return cur


def _set(plan, path, val):
    cur = plan
    for k in path[:-1]:
        cur = cur[k]
    cur[path[-1]] = val


def _expand(plan, pattern):
    """pattern elements: str key, or '*' for every index/key -> concrete paths"""
    paths = [[]]
    for el in pattern:
        nxt = []
        for p in paths:
            cur = _get(plan, p)
            if el == '*':
                if isinstance(cur, list):
                    nxt += [p + [i] for i in range(len(cur))]
                elif isinstance(cur, dict):
                    nxt += [p + [k] for k in cur]
            else:
                if isinstance(cur, dict) and el in cur:
                    nxt.append(p + [el])
        paths = nxt
    return paths


def _ddmin_list(plan, path, test, minlen=0):
    lst = _get(plan, path)
    if not isinstance(lst, list):
        return plan
    n = len(lst)
    chunk = max(1, n // 2)
    while chunk >= 1 and len(_get(plan, path)) > minlen:
        lst = _get(plan, path)
        i = 0
        progressed = False
        while i < len(lst) and len(lst) > minlen:
            cand = copy.deepcopy(plan)
            new = lst[:i] + lst[i + chunk:]
            if len(new) < minlen:
                i += chunk
                continue
            _set(cand, path, new)
            if test(cand):
                plan = cand
                lst = new
                progressed = True
            else:
                i += chunk
        if chunk == 1 and not progressed:
            break
        chunk = max(1, chunk // 2) if not progressed or chunk > 1 else 1
        if chunk == 1 and progressed:
            continue
    return plan


_TAG = re.compile(r'<(/?)([A-Za-z_][\w:.\-]*)((?:\s+[\w:.\-]+\s*=\s*(?:"[^"]*"|\'[^\']*\'))*)\s*(/?)>', re.S)


def element_spans(text):
    """(start, end, depth) of every element of a (roughly) well-formed XML text, outermost first"""
    spans, stack = [], []
    pos = 0
    while True:
        m = _TAG.search(text, pos)
        if not m:
            break
        pos = m.end()
        if m.group(1):            # close tag
            while stack:
                name, st = stack.pop()
                if name == m.group(2):
                    spans.append((st, m.end(), len(stack)))
                    break
        elif m.group(4):          # empty element
            spans.append((m.start(), m.end(), len(stack)))
        else:
            stack.append((m.group(2), m.start()))
    spans.sort(key=lambda s: (s[2], -(s[1] - s[0])))
    return spans


def _shrink_text(plan, path, test, max_tries):
    tries = 0
    changed = True
    while changed and tries < max_tries:
        changed = False
        text = _get(plan, path)
        if not isinstance(text, str) or len(text) < 40:
            break
        spans = [s for s in element_spans(text) if s[2] >= 1]
        for st, en, _d in spans:
            if tries >= max_tries:
                break
            tries += 1
            cand = copy.deepcopy(plan)
            _set(cand, path, text[:st] + text[en:])
            if test(cand):
                plan = cand
                changed = True
                break
    return plan


def _shrink_ints(plan, path, test):
    v = _get(plan, path)
    if not isinstance(v, int) or isinstance(v, bool) or v <= 1:
        return plan
    for cand_v in (1, v // 2, v - 1):
        if cand_v < v and cand_v >= 0:
            cand = copy.deepcopy(plan)
            _set(cand, path, cand_v)
            if test(cand):
                return _shrink_ints(cand, path, test) if cand_v > 1 else cand
    return plan


def minimise(plan, test, spec):
    """spec: {'lists': [pattern...], 'minlen': {json-pattern: n}, 'texts': [pattern...], 'ints': [pattern...], 'text_tries': n}"""
    plan = copy.deepcopy(plan)
    for _round in range(2):
        for pat in spec.get('lists', []):
            for path in _expand(plan, pat):
                plan = _ddmin_list(plan, path, test, spec.get('minlen', {}).get('/'.join(map(str, pat)), 0))
        for pat in spec.get('texts', []):
            for path in _expand(plan, pat):
                plan = _shrink_text(plan, path, test, spec.get('text_tries', 40))
        for pat in spec.get('ints', []):
            for path in _expand(plan, pat):
                plan = _shrink_ints(plan, path, test)
    return plan
