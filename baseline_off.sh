#!/bin/bash
# MANIFEST.hooks.baseline_off_cmd: the repository's own test suite with the verification guard OFF (stock flags).
set -e
B="${VERIF_BASELINE_BUILD:-/repo/_build}"
if [ ! -f "$B/build.ninja" ]; then cmake -G Ninja -S /repo -B "$B" -DCMAKE_BUILD_TYPE=RelWithDebInfo -DCMAKE_CXX_FLAGS=-Wno-error; fi
cmake --build "$B" -- -j16
ctest --test-dir "$B" -j8 --timeout 900
