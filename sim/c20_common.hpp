// C20 — shared infrastructure of the container/string driver: include discipline (assertions ON for the
// Xalan headers), abort interception (assert / SIGSEGV / watchdog -> siglongjmp), element types, the per-run context.
#pragma once

// The CMake build passes -DNDEBUG globally.  The Xalan headers are compiled WITH their assertions here: they
// document the preconditions of the classes, and they are the self-check of the generator (DESIGN.md, C20).
#undef NDEBUG
#include <cassert>
#include <xalanc/Include/PlatformDefinitions.hpp>
#include <xalanc/Include/XalanMemoryManagement.hpp>
#include <xalanc/Include/XalanVector.hpp>
// XalanBitmap::isSet() carries an inverted assertion (assert(theBit >= m_size), XalanBitmap.hpp:72): with
// assertions enabled every legal call aborts.  That header alone is therefore parsed the way the library itself
// is built (NDEBUG); everything it includes has already been parsed above with assertions enabled.
#define NDEBUG
#include <cassert>
#include <xalanc/PlatformSupport/XalanBitmap.hpp>
#undef NDEBUG
#include <cassert>
#include <xalanc/Include/XalanList.hpp>
#include <xalanc/Include/XalanDeque.hpp>
#include <xalanc/Include/XalanMap.hpp>
#include <xalanc/Include/XalanSet.hpp>
#include <xalanc/Include/STLHelper.hpp>
#include <xalanc/Include/XalanObjectCache.hpp>
#include <xalanc/XalanDOM/XalanDOMString.hpp>
#include <xalanc/PlatformSupport/XalanDOMStringPool.hpp>
#include <xalanc/PlatformSupport/XalanDOMStringHashTable.hpp>
#include "glue.hpp"

#include <csetjmp>
#include <sanitizer/asan_interface.h>
#include <csignal>
#include <unistd.h>
#include <string>
#include <vector>
#include <list>
#include <deque>
#include <map>
#include <set>
#include <algorithm>
#include <functional>

namespace c20 {

using sim::Json; using sim::Result; using sim::Trace; using sim::Rng; using sim::SimMemoryManager;
using xercesc::MemoryManager;
using xalanc::XalanDOMString; using xalanc::XalanDOMChar;

// ------------------------------------------------------------------------------------------------ abort interception
// An assertion of a Xalan header, a SIGSEGV/SIGBUS/SIGFPE inside the library, or the watchdog alarm end the
// current history by siglongjmp to the frame set up in execute().  The containers of that history are abandoned
// (never destroyed); their blocks are released when the run's SimMemoryManager goes away.
struct AbortCtx {
    sigjmp_buf jb;
    volatile sig_atomic_t armed = 0;
    char expr[256], file[256], func[512];
    unsigned line = 0;
    int sig = 0;
};
inline AbortCtx& abortCtx() { static AbortCtx a; return a; }
enum { ABORT_ASSERT = 1, ABORT_SIGNAL = 2, ABORT_ALARM = 3 };

inline void copyz(char* d, size_t n, const char* s) { if (!s) s = "?"; size_t i = 0; for (; i + 1 < n && s[i]; ++i) d[i] = s[i]; d[i] = 0; }

inline void onSignal(int sig) {
    AbortCtx& a = abortCtx();
    if (!a.armed) { signal(sig, SIG_DFL); raise(sig); return; }
    a.sig = sig;
    siglongjmp(a.jb, sig == SIGALRM ? ABORT_ALARM : ABORT_SIGNAL);
}
inline void installHandlers() {
    struct sigaction sa; memset(&sa, 0, sizeof sa); sa.sa_handler = onSignal; sigemptyset(&sa.sa_mask); sa.sa_flags = SA_NODEFER;
    for (int s : { SIGSEGV, SIGBUS, SIGFPE, SIGALRM }) sigaction(s, &sa, nullptr);
}


// ------------------------------------------------------------------------------------------------ guarded manager
// SimMemoryManager with a poisoned guard zone on both sides of every block.  A container that hands out an element
// just outside one of its blocks (back() of an empty block, index one past the end) then produces the same
// AddressSanitizer report (use-after-poison) whatever happens to lie next to the block, which keeps such findings
// reproducible in a fresh process.
struct GuardedMM : public SimMemoryManager {
    enum { G = 64 };
    void* allocate(XMLSize_t size) override {
        char* p = (char*)SimMemoryManager::allocate(size + 2 * G);
        ASAN_POISON_MEMORY_REGION(p, G); ASAN_POISON_MEMORY_REGION(p + G + size, G);
        return p + G;
    }
    void deallocate(void* q) override {
        if (!q) return;
        char* p = (char*)q - G;
        auto it = table.find(p);
        if (it != table.end() && it->second.live) ASAN_UNPOISON_MEMORY_REGION(p, it->second.size);
        SimMemoryManager::deallocate(it != table.end() ? (void*)p : q);
    }
    ~GuardedMM() { for (auto& kv : table) if (kv.second.live) ASAN_UNPOISON_MEMORY_REGION(kv.first, kv.second.size); }
};

// ------------------------------------------------------------------------------------------------ small helpers
inline std::string show(const std::vector<int>& v) {
    std::string r = "["; size_t n = v.size() > 24 ? 24 : v.size();
    for (size_t i = 0; i < n; ++i) { if (i) r += ' '; r += std::to_string(v[i]); }
    if (v.size() > n) r += " ...(" + std::to_string(v.size()) + ")";
    return r + "]";
}
inline std::string show(const std::map<int, int>& m) {
    std::string r = "{"; size_t k = 0;
    for (auto& kv : m) { if (k++) r += ' '; if (k > 24) { r += "..."; break; } r += std::to_string(kv.first) + ":" + std::to_string(kv.second); }
    return r + "}";
}
inline std::string show(const std::u16string& s) {
    std::string r = "\""; size_t n = s.size() > 40 ? 40 : s.size();
    for (size_t i = 0; i < n; ++i) { unsigned c = s[i]; if (c >= 0x20 && c < 0x7f && c != '\\' && c != '"') r += (char)c; else { char b[12]; snprintf(b, sizeof b, "\\u%04x", c); r += b; } }
    if (s.size() > n) r += "...";
    return r + "\"(" + std::to_string(s.size()) + ")";
}
inline uint64_t hashSeq(const std::vector<int>& v) { uint64_t h = 0xcbf29ce484222325ULL; for (int x : v) h = sim::fnv1a(&x, sizeof x, h); return h; }
inline uint64_t hashMap(const std::map<int, int>& m) { uint64_t h = 0xcbf29ce484222325ULL; for (auto& kv : m) { h = sim::fnv1a(&kv.first, sizeof(int), h); h = sim::fnv1a(&kv.second, sizeof(int), h); } return h; }
inline uint64_t hashStr(const std::u16string& s) { return sim::fnv1a(s.data(), s.size() * sizeof(char16_t)); }
inline std::string h16(uint64_t h) { char b[12]; snprintf(b, sizeof b, "%04x", (unsigned)(h & 0xffff) ^ (unsigned)((h >> 16) & 0xffff)); return b; }

inline Json jsonInts(const std::vector<int>& v) { Json a = Json::array(); for (int x : v) a.push(x); return a; }
inline Json jsonMap(const std::map<int, int>& m) { Json a = Json::array(); for (auto& kv : m) { a.push(kv.first); a.push(kv.second); } return a; }
inline Json jsonStr(const std::u16string& s) { Json a = Json::array(); for (char16_t c : s) a.push((int)c); return a; }
inline bool isPrefix(const std::vector<int>& p, const std::vector<int>& s) { return p.size() <= s.size() && std::equal(p.begin(), p.end(), s.begin()); }

// text of element id: 0 is the default-constructed (empty) string
inline std::u16string strOf(int id) {
    std::u16string s; if (id == 0) return s;
    s += u'k'; for (char c : std::to_string(id)) s += (char16_t)c;
    for (int i = 0; i < (id & 3); ++i) s += u'q';
    return s;
}
inline int idOfStr(const char16_t* p, size_t n) {
    if (n == 0) return 0;
    if (p[0] != u'k') return -1;
    size_t i = 1; long v = 0; int digits = 0;
    while (i < n && p[i] >= u'0' && p[i] <= u'9' && digits < 9) { v = v * 10 + (p[i] - u'0'); ++i; ++digits; }
    if (!digits) return -1;
    std::u16string want = strOf((int)v);
    if (want.size() != n || !std::equal(want.begin(), want.end(), p)) return -1;
    return (int)v;
}

// ------------------------------------------------------------------------------------------------ element types
// Counting element: records live instances, detects double destruction / destruction of never-constructed
// storage, and owns one block from the memory manager so that copy construction and assignment can fail.
struct Counted {
    enum : uint32_t { LIVE = 0xC0FFEE01u, DEAD = 0xDEADBEEFu };
    static inline long live = 0, ctors = 0, dtors = 0, bad = 0;
    static void resetStats() { live = ctors = dtors = bad = 0; }
    uint32_t magic; int v; int* blk; MemoryManager* mm;
    static int* alloc(MemoryManager& m, int v) { int* p = (int*)m.allocate(sizeof(int) * 2); p[0] = v; p[1] = ~v; return p; }
    void born(MemoryManager& m, int val) { blk = alloc(m, val); mm = &m; v = val; magic = LIVE; ++live; ++ctors; }
    explicit Counted(MemoryManager& m) { born(m, 0); }
    Counted(int id, MemoryManager& m) { born(m, id); }
    Counted(const Counted& o, MemoryManager& m) { born(m, o.val()); }
    Counted(const Counted& o) { born(*o.mm, o.val()); }
    Counted& operator=(const Counted& o) {
        if (magic != LIVE) { ++bad; return *this; }
        const int nv = o.val(); int* nb = alloc(*mm, nv);      // may throw: *this unchanged
        mm->deallocate(blk); blk = nb; v = nv; return *this;
    }
    ~Counted() {
        if (magic != LIVE) { ++bad; return; }                  // double destruction or garbage
        magic = DEAD; mm->deallocate(blk); blk = 0; --live; ++dtors;
    }
    int val() const { if (magic != LIVE || !blk || blk[0] != v || blk[1] != ~v) { ++bad; return -777; } return v; }
    bool operator==(const Counted& o) const { return val() == o.val(); }
    bool operator<(const Counted& o) const { return val() < o.val(); }
};

// hash mode of the functors below: 0 native, 1 degenerate (id mod 3), 2 constant
inline int& hashMode() { static int m = 0; return m; }

struct IntE {
    typedef int T; static const char* name() { return "int"; } enum { counted = 0 };
    struct Val { int x; Val(int id, MemoryManager&) : x(id) {} };
    static int id(const int& x) { return x; }
    static size_t nativeHash(const int& x) { return xalanc::XalanHasher<int>()(x); }
};
struct StrE {
    typedef XalanDOMString T; static const char* name() { return "string"; } enum { counted = 0 };
    struct Val { XalanDOMString x; Val(int id, MemoryManager& m) : x(m) { std::u16string s = strOf(id); if (!s.empty()) x.assign(s.data(), (XalanDOMString::size_type)s.size()); } };
    static int id(const XalanDOMString& x) { return idOfStr(x.c_str(), x.length()); }
    static size_t nativeHash(const XalanDOMString& x) { return x.hash(); }
};
struct CntE {
    typedef Counted T; static const char* name() { return "counting"; } enum { counted = 1 };
    static long& held() { static long h = 0; return h; }      // counting objects owned by the harness itself (arguments)
    struct Val { Counted x; Val(int id, MemoryManager& m) : x(id, m) { ++held(); } ~Val() { --held(); } };
    static int id(const Counted& x) { return x.val(); }
    static size_t nativeHash(const Counted& x) { return (size_t)(unsigned)x.val() * 2654435761u; }
};
// C-string keys with the key traits the library itself declares for const XalanDOMChar* (hash_null_terminated_array,
// equal_null_terminated_arrays): what the native source tree keeps its ID table in.  The strings live in a pool that is never released.
struct CStrE {
    typedef const xalanc::XalanDOMChar* T; static const char* name() { return "cstring"; } enum { counted = 0 };
    static const xalanc::XalanDOMChar* intern(int id) { static std::map<int, std::u16string> pool; auto it = pool.find(id); if (it == pool.end()) it = pool.emplace(id, strOf(id)).first; return (const xalanc::XalanDOMChar*)it->second.c_str(); }
    struct Val { const xalanc::XalanDOMChar* x; Val(int id, MemoryManager&) : x(intern(id)) {} };
    static int id(const xalanc::XalanDOMChar* const& x) { size_t n = 0; while (x[n]) ++n; return idOfStr((const char16_t*)x, n); }
    static size_t nativeHash(const xalanc::XalanDOMChar* const& x) { return xalanc::hash_null_terminated_array<xalanc::XalanDOMChar>()(x); }
};
template <class E> struct HashOf {
    size_t operator()(const typename E::T& k) const {
        switch (hashMode()) { case 1: return (size_t)((unsigned)E::id(k) % 3u); case 2: return 7; default: return E::nativeHash(k); }
    }
};
template <class E> struct KeyTraitsOf { typedef HashOf<E> Hasher; typedef std::equal_to<typename E::T> Comparator; };
template <> struct KeyTraitsOf<CStrE> { typedef HashOf<CStrE> Hasher; typedef xalanc::equal_null_terminated_arrays<xalanc::XalanDOMChar> Comparator; };

} // namespace c20

namespace XALAN_CPP_NAMESPACE {
XALAN_USES_MEMORY_MANAGER(c20::Counted)
template <> struct XalanMapKeyTraits<c20::Counted> { typedef c20::HashOf<c20::CntE> Hasher; typedef std::equal_to<c20::Counted> Comparator; };
}

namespace c20 {

// ------------------------------------------------------------------------------------------------ per-run context
enum Shape { ATOMIC, APPEND, TRUNC, REFILL, MIXED };

struct Run {
    GuardedMM mm, mm2;                                      // mm2: the second container's own manager when the plan asks for one (knobs.mm2)
    xercesc::MemoryManager& mmB() { return plan.at("knobs").num("mm2", 0) ? (xercesc::MemoryManager&)mm2 : (xercesc::MemoryManager&)mm; }
    Result& res; Trace& tr; const Json& plan;
    bool modeB = false;
    std::string cont, elem;
    // current op
    size_t opIdx = 0; const Json* op = nullptr; std::string kind, phase, stateClass, family, directOp;
    bool fired = false, threw = false, stop = false, mismatched = false, poisoned = false;
    int anomalies = 0;
    bool opChanged = false; std::vector<size_t> noEffect;
    std::function<Json()> snapshot;                         // models of the run as a "force_state" operation (attribution pass)
    std::vector<std::pair<size_t, Json> > forced;           // faulted operations that changed something: index -> state they left   // faulted operations that left every container unchanged (attribution pass drops them)
    std::string lastFaultFamily; size_t lastFaultOp = 0;
    long liveBias = 0, extraLive = 0;                       // extraLive: counting elements inside temporaries the harness holds during this op
    const char* apiClass = "";                              // class under test (assert attribution)
    uint64_t refusedAtCall = 0;

    Run(Result& r, Trace& t, const Json& p) : res(r), tr(t), plan(p) {
        modeB = p.str("mode", "A") == "B"; cont = p.str("container"); elem = p.str("elem", "int");
    }
    int64_t arg(const char* k, int64_t def = 0) const { return op ? op->num(k, def) : def; }
    unsigned uarg(const char* k) const { int64_t v = arg(k); if (v < 0) v = -v; return (unsigned)(v & 0x7fffffff); }
    int vid(const char* k = "v") const { return (int)(uarg(k) & 0xffff); }
    std::vector<int> vals(const char* k = "vals") const {
        std::vector<int> r; if (!op) return r; const Json* j = op->find(k); if (!j || j->t != Json::Arr) return r;
        for (auto& x : j->a) { int64_t v = x.t == Json::Int ? x.i : 0; if (v < 0) v = -v; r.push_back((int)(v & 0xffff)); if (r.size() >= 8192) break; }
        return r;
    }
    std::string where() const { return "op#" + std::to_string(opIdx) + " " + kind + " [" + stateClass + "]"; }
    // A finding that does not involve a fault in the current operation.  In a history in which an allocation was refused
    // EARLIER it may still be a late consequence of that refusal: it is remembered as a suspect, and the driver decides
    // afterwards by executing the same history without faults (fault-free and fault-injecting findings stay apart).
    std::vector<std::pair<std::string, std::string> > suspects;
    void ordinary(const std::string& cls, const std::string& sig, const std::string& detail) {
        if (mm.refused && !fired) suspects.emplace_back(cls, sig);
        res.violate(cls, sig, detail);
    }
    void mismatch(const std::string& what, const std::string& detail) { mismatched = true; ++anomalies; ordinary("model-mismatch", cont + ":" + kind, where() + ": " + what + ": " + detail); }
    // After a refused allocation left the container in an inadmissible state the history ends: everything that
    // follows would only be a consequence.  The signature names the operation family, not the symptom.
    void corrupt(const std::string& what, const std::string& detail) {
        res.violate("fault-corrupts-container", cont + ":" + family, where() + " after refused allocation: " + what + ": " + detail);
        res.count("fault-corrupts:" + cont + ":" + family + ":" + what); stop = poisoned = true; ++anomalies;
    }
    // an observable is wrong: attribute to the fault if one fired in this op, otherwise it is a plain model mismatch
    void bad(const std::string& what, const std::string& detail) { if (fired) corrupt(what, detail); else mismatch(what, detail); }
    // the container's own observables contradict each other (after the model has been re-synchronised from it):
    // nothing that follows in this history would be meaningful
    void inconsistent(const std::string& what, const std::string& detail) { bad(what, detail); stop = poisoned = true; }
    // element construction/destruction anomalies
    void lifetime(const std::string& what, const std::string& detail) {
        ++anomalies;
        if (fired) corrupt(what, detail); else ordinary("element-lifetime", cont + ":" + kind + ":" + what, where() + ": " + detail);
    }
    void harness(const std::string& d) { if (res.status != "harness-error") res.harness(where() + ": " + d); stop = true; }
    bool need(bool c, const char* what) { if (!c) harness(std::string("generator/interpreter precondition broken: ") + what); return c; }

    // run f with this op's fault armed; OutOfMemoryException is the only exception absorbed here
    template <class F> void call(F f) {
        fired = threw = false;
        const uint64_t k = (modeB && op) ? (uint64_t)(op->num("fault", 0) > 0 ? op->num("fault", 0) : 0) : 0;
        const uint64_t before = mm.refused; refusedAtCall = before;
        mm.beginOp(); if (k) mm.setFault(k);
        try { f(); }
        catch (const xercesc::OutOfMemoryException&) { threw = true; }
        catch (...) { mm.clearFault(); throw; }
        mm.clearFault();
        fired = mm.refused > before;
        if (fired) { lastFaultFamily = family; lastFaultOp = opIdx; res.count("fault:alloc-fail"); res.count(threw ? "fault-surfaced:exception" : "fault-surfaced:absorbed"); }
        else if (k) res.count("fault-not-reached");
        if (threw && !fired) harness("OutOfMemoryException without a refused allocation");
    }

    static bool acceptSeq(const std::vector<int>& pre, const std::vector<int>& post, const std::vector<int>& S, Shape sh, std::string& outcome) {
        if (S == post) { outcome = S == pre ? "noop" : "full"; return true; }
        if (S == pre) { outcome = "none"; return true; }
        switch (sh) {
        case ATOMIC: break;
        case APPEND: if (isPrefix(pre, S) && isPrefix(S, post)) { outcome = "prefix"; return true; } break;
        case TRUNC: if (isPrefix(post, S) && isPrefix(S, pre)) { outcome = "prefix"; return true; } break;
        case REFILL: if (isPrefix(S, post)) { outcome = "prefix"; return true; } break;
        case MIXED: {
            const size_t lo = std::min(pre.size(), post.size()), hi = std::max(pre.size(), post.size());
            if (isPrefix(S, post)) { outcome = "prefix"; return true; }
            if (S.size() < lo || S.size() > hi) break;
            std::set<int> ok(pre.begin(), pre.end()); ok.insert(post.begin(), post.end());
            bool all = true; for (int x : S) if (!ok.count(x)) { all = false; break; }
            if (all) { outcome = "mixed"; return true; }
            break; }
        }
        outcome = "unacceptable"; return false;
    }
    // S = contents read from the container after the op; model becomes S (re-synchronisation)
    void settleSeq(std::vector<int>& model, const std::vector<int>& post, const std::vector<int>& S, Shape sh, const char* which) {
        if (!fired) {
            if (S != post) mismatch(std::string(which) + " contents", "expected " + show(post) + " got " + show(S) + " (before the operation: " + show(model) + ")");
        } else {
            std::string oc;
            if (!acceptSeq(model, post, S, sh, oc)) corrupt("state", std::string(which) + " is " + show(S) + "; before " + show(model) + ", intended " + show(post));
            if (which[0] == 'A') res.count("fault-state:" + oc + (oc == "mixed" ? ":" + cont + ":" + family : ""));
        }
        if (S != model) opChanged = true;
        model = S;
    }
    void checkCounted(long expected) {
        if (Counted::bad) { lifetime("element-destroyed-twice-or-garbage", std::to_string(Counted::bad) + " destructions/reads of objects that were not live"); Counted::bad = 0; }
        if (Counted::live < 0) lifetime("negative-live-count", std::to_string(Counted::live));
        const long have = Counted::live - liveBias - CntE::held() - extraLive;
        if (have != expected) {
            lifetime("element-balance", "live counting elements " + std::to_string(have) + ", elements held by the containers " + std::to_string(expected));
            liveBias += have - expected;
        }
    }
    void finishOp(size_t size, uint64_t contentHash) {
        if (fired && !opChanged) noEffect.push_back(opIdx);
        else if (fired && snapshot) forced.emplace_back(opIdx, snapshot());
        res.count("op:" + cont + ":" + kind);
        res.tag(cont + "|" + kind + "|" + stateClass);
        tr.ev(kind + (fired ? (threw ? " F!" : " F~") : "") + " n=" + std::to_string(size) + " h=" + h16(contentHash));
    }
};

} // namespace c20
