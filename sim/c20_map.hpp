// C20 — XalanMap and XalanSet against std::map<int,int> models of (key id -> value id).
#pragma once
#include "c20_common.hpp"
#include <memory>

namespace c20 {

template <class K, class V, class KT> struct PeekMap : public xalanc::XalanMap<K, V, KT> {
    typedef xalanc::XalanMap<K, V, KT> Base;
    PeekMap(MemoryManager& m, double lf, size_t minBuckets, size_t eraseThreshold) : Base(m, lf, minBuckets, eraseThreshold) {}
    PeekMap(const PeekMap& o, MemoryManager& m) : Base(o, m) {}
    size_t nbuckets() const { return this->m_buckets.size(); }
    bool freeNonEmpty() const { return !this->m_freeEntries.empty(); }
    size_t eraseCount() const { return this->m_eraseCount; }
};

typedef std::map<int, int> IM;

struct MapSettle {
    // S must be one of the admissible states; the last one is the intended final state
    static void settle(Run& R, IM& model, const std::vector<IM>& ok, const IM& S, const char* which) {
        if (!R.fired) {
            if (S != ok.back()) R.mismatch(std::string(which) + " contents", "expected " + show(ok.back()) + " got " + show(S) + " (before the operation: " + show(model) + ")");
        } else {
            size_t hit = ok.size(); for (size_t i = ok.size(); i-- > 0;) if (ok[i] == S) { hit = i; break; }
            if (hit == ok.size()) { R.corrupt("state", std::string(which) + " is " + show(S) + "; before " + show(model) + ", intended " + show(ok.back())); R.res.count("fault-state:unacceptable"); }
            else if (which[0] == 'A') R.res.count(std::string("fault-state:") + (hit + 1 == ok.size() ? (S == model ? "noop" : "full") : hit == 0 ? "none" : "prefix"));
        }
        if (S != model) R.opChanged = true;
        model = S;
    }
};

// ================================================================================================== XalanMap
template <class KE, class VE> struct MapRun {
    typedef typename KE::T KT_; typedef typename VE::T VT_;
    typedef PeekMap<KT_, VT_, KeyTraitsOf<KE> > M; typedef typename M::Base Base;
    typedef typename KE::Val KVal; typedef typename VE::Val VVal;
    Run& R; M* a; M* b; IM ma, mb; double lfA, lfB; bool justRehashed;

    explicit MapRun(Run& r) : R(r), a(0), b(0), justRehashed(false) {
        R.apiClass = "XalanMap";
        const Json& kn = R.plan.at("knobs");
        static const double lfs[] = { 0.5, 0.75, 1.0, 2.0, 4.0 };
        lfA = lfs[(unsigned)kn.num("lfA", 1) % 5]; lfB = lfs[(unsigned)kn.num("lfB", 1) % 5];
        size_t mbA = (size_t)(kn.num("minA", 3) & 31); if (!mbA) mbA = 1; size_t mbB = (size_t)(kn.num("minB", 3) & 31); if (!mbB) mbB = 1;
        hashMode() = (int)(kn.num("hash", 0) % 3);
        a = new M(R.mm, lfA, mbA, (size_t)(kn.num("etA", 3) & 63));
        b = new M(R.mmB(), lfB, mbB, (size_t)(kn.num("etB", 3) & 63));
        R.snapshot = [this] { Json o = Json::object(); o["op"] = "force_state"; o["a"] = jsonMap(ma); o["b"] = jsonMap(mb); return o; };
    }
    IM read(const Base& m, const char* which) {
        IM r; size_t cnt = 0;
        for (typename Base::const_iterator it = m.begin(); it != m.end(); ++it) {
            const int k = KE::id((*it).first), v = VE::id(it->second);
            if (!r.insert(std::make_pair(k, v)).second) R.inconsistent("duplicate-key", std::string(which) + " iterates key " + std::to_string(k) + " twice");
            if (++cnt > 100000) break;
        }
        return r;
    }
    void verify(M& m, const IM& model, const char* which, int extraKey) {
        const Base& cm = m; const std::string w = which;
        if (cm.size() != model.size()) { R.inconsistent("size", w + ".size()=" + std::to_string(cm.size()) + " but iteration gives " + std::to_string(model.size()) + " distinct keys"); R.stop = true; return; }
        if (cm.empty() != model.empty()) R.inconsistent("empty", w + ".empty() disagrees with size()");
        std::set<int> keys; for (int k = 0; k < 12; ++k) keys.insert(k); for (auto& kv : model) keys.insert(kv.first); if (extraKey >= 0) keys.insert(extraKey);
        bool flip = false;
        for (int k : keys) {
            KVal kx(k, R.mm); IM::const_iterator mi = model.find(k); flip = !flip;
            bool found; int v = 0;
            if (flip) { typename Base::const_iterator it = cm.find(kx.x); found = it != cm.end(); if (found) { v = VE::id((*it).second); if (KE::id(it->first) != k) R.inconsistent("find-key", w + ".find(" + std::to_string(k) + ") points at key " + std::to_string(KE::id(it->first))); } }
            else { typename Base::iterator it = m.find(kx.x); found = it != m.end(); if (found) v = VE::id(it->second); }
            if (found != (mi != model.end())) { R.inconsistent("find", w + ".find(" + std::to_string(k) + ") " + (found ? "finds a key that iteration does not show" : "misses a key that iteration shows")); break; }
            if (found && v != mi->second) { R.inconsistent("find-value", w + ".find(" + std::to_string(k) + ")->second is " + std::to_string(v) + ", iteration gave " + std::to_string(mi->second)); break; }
        }
    }
    std::string stateOf(const M& m, double lf) const {
        std::string s = m.size() == 0 ? "empty" : "small";
        if (m.nbuckets() == 0) s += "+no-buckets";
        else if (size_t(lf * m.size()) > m.nbuckets()) s += "+at-rehash-threshold";
        if (justRehashed) s += "+just-rehashed";
        s += m.freeNonEmpty() ? "+free-list-nonempty" : "+free-list-empty";
        return s;
    }
    void after(const std::vector<IM>& okA, int extraKey = -1, const std::vector<IM>* okB = 0) {
        { IM S = read(*a, "A"); MapSettle::settle(R, ma, okA, S, "A"); }
        { IM S = read(*b, "B"); std::vector<IM> ob; if (okB) ob = *okB; else ob.push_back(mb); MapSettle::settle(R, mb, ob, S, "B"); }
        verify(*a, ma, "A", extraKey); if (!R.stop) verify(*b, mb, "B", extraKey);
        long expect = 0; if (KE::counted) expect += (long)(ma.size() + mb.size()); if (VE::counted) expect += (long)(ma.size() + mb.size());
        if (KE::counted || VE::counted) R.checkCounted(expect);
        R.finishOp(ma.size(), hashMap(ma) ^ (hashMap(mb) * 31));
    }
    void skip() { R.res.count("skipped-ops"); R.tr.ev("skip " + R.kind); }
    static std::vector<IM> two(const IM& pre, const IM& post) { std::vector<IM> v; v.push_back(pre); v.push_back(post); return v; }

    void step() {
        const std::string o = R.op->str("op"); R.kind = o; R.stateClass = stateOf(*a, lfA);
        const size_t n = ma.size(), nb0 = a->nbuckets(), ec0 = a->eraseCount(); const bool free0 = a->freeNonEmpty();
        const int k = (int)(R.uarg("k") & 0xfff), v = R.vid();
        IM post = ma; const bool present = ma.count(k) != 0;
        if (o == "force_state") {
            const std::vector<int> va = R.vals("a"), vb = R.vals("b"); IM wa, wb; a->clear(); b->clear();
            for (size_t i = 0; i + 1 < va.size(); i += 2) { KVal kx(va[i], R.mm); VVal vx(va[i + 1], R.mm); a->insert(kx.x, vx.x); wa[va[i]] = va[i + 1]; }
            for (size_t i = 0; i + 1 < vb.size(); i += 2) { KVal kx(vb[i], R.mm); VVal vx(vb[i + 1], R.mm); b->insert(kx.x, vx.x); wb[vb[i]] = vb[i + 1]; }
            std::vector<IM> okB = two(mb, wb); after(two(ma, wa), -1, &okB);
        } else if (o == "insert" || o == "insert_pair") {
            KVal kx(k, R.mm); VVal vx(v, R.mm); if (!present) post[k] = v;
            R.kind = o + (present ? "-existing" : "-new");
            if (o == "insert") R.call([&] { a->insert(kx.x, vx.x); });
            else { typename Base::value_type pr(kx.x, vx.x); R.extraLive = (long)KE::counted + (long)VE::counted; R.call([&] { a->insert(pr); }); after(two(ma, post), k); return; }
            after(two(ma, post), k);
        } else if (o == "index_set") {
            KVal kx(k, R.mm); VVal vx(v, R.mm); post[k] = v;
            R.kind = present ? "index_set-existing" : "index_set-new";
            std::vector<IM> ok; ok.push_back(ma); if (!present) { IM mid = ma; mid[k] = 0; ok.push_back(mid); } ok.push_back(post);
            R.call([&] { (*a)[kx.x] = vx.x; }); after(ok, k);
        } else if (o == "index_read") {
            KVal kx(k, R.mm); if (!present) post[k] = 0; int got = 0;
            R.kind = present ? "index_read-existing" : "index_read-new";
            R.call([&] { got = VE::id((*a)[kx.x]); });
            if (!R.threw && got != post[k]) R.bad("operator[]-value", "m[" + std::to_string(k) + "] is " + std::to_string(got) + ", expected " + std::to_string(post[k]));
            after(two(ma, post), k);
        } else if (o == "find") {
            KVal kx(k, R.mm); bool found = false; int gk = 0, gv = 0;
            R.kind = present ? "find-present" : "find-absent";
            R.call([&] { typename Base::iterator it = a->find(kx.x); found = it != a->end(); if (found) { gk = KE::id(it->first); gv = VE::id((*it).second); } });
            if (found != present || (found && (gk != k || gv != ma[k]))) R.bad("find", "find(" + std::to_string(k) + ")");
            after(two(ma, post), k);
        } else if (o == "erase_key") {
            KVal kx(k, R.mm); post.erase(k); size_t cnt = 0;
            R.kind = present ? "erase_key-present" : "erase_key-absent";
            R.call([&] { cnt = a->erase(kx.x); });
            if (!R.threw && cnt != (present ? 1u : 0u)) R.bad("erase-count", "erase(" + std::to_string(k) + ") returned " + std::to_string(cnt));
            after(two(ma, post), k);
        } else if (o == "erase_iter") {
            KVal kx(k, R.mm); post.erase(k);
            R.kind = present ? "erase_iter-present" : "erase_iter-end";
            typename Base::iterator it = a->find(kx.x);
            R.call([&] { a->erase(it); }); after(two(ma, post), k);
        } else if (o == "set_via_iter") {
            KVal kx(k, R.mm); VVal vx(v, R.mm); if (!present) return skip(); post[k] = v;
            typename Base::iterator it = a->find(kx.x); if (!R.need(it != a->end(), "key present in model but find() failed")) return;
            R.call([&] { it->second = vx.x; }); after(two(ma, post), k);
        } else if (o == "insert_range" || o == "erase_range") {
            const unsigned cnt = R.uarg("n") % 49, stride = 1 + R.uarg("stride") % 31; const bool ins = o == "insert_range";
            std::vector<std::unique_ptr<KVal> > ks; std::vector<std::unique_ptr<VVal> > vs; std::vector<int> ids;
            std::vector<IM> ok; ok.push_back(ma); IM cur = ma;
            for (unsigned j = 0; j < cnt; ++j) {
                const int kk = (int)((k + j * stride) & 63); ids.push_back(kk);
                ks.emplace_back(new KVal(kk, R.mm)); vs.emplace_back(new VVal(v, R.mm));
                if (ins) { if (!cur.count(kk)) cur[kk] = v; } else cur.erase(kk);
                ok.push_back(cur);
            }
            R.call([&] { for (unsigned j = 0; j < cnt; ++j) { if (ins) a->insert(ks[j]->x, vs[j]->x); else a->erase(ks[j]->x); } });
            after(ok, k);
        } else if (o == "clear") {
            post.clear(); R.call([&] { a->clear(); }); after(two(ma, post));
        } else if (o == "swap") {
            std::vector<IM> okB = two(mb, ma); post = mb;
            R.call([&] { a->swap(*b); }); after(two(ma, post), -1, &okB);
        } else if (o == "assign_from_b") {
            post = mb; R.call([&] { Base& l = *a; const Base& r = *b; l = r; }); after(two(ma, post));
        } else if (o == "assign_to_b") {
            std::vector<IM> okB = two(mb, ma); R.call([&] { Base& l = *b; const Base& r = *a; l = r; }); after(two(ma, post), -1, &okB);
        } else if (o == "self_assign") {
            R.call([&] { Base& self = *a; Base& alias = *a; self = alias; }); after(two(ma, post));
        } else if (o == "copy_ctor") {
            M* c = 0; R.call([&] { c = new M(*a, R.mm); });
            if (c) {
                IM S = read(*c, "copy"); if (S != ma || c->size() != ma.size()) R.bad("copy-contents", "copy is " + show(S) + " size() " + std::to_string(c->size()) + ", source " + show(ma));
                if (R.arg("keep")) a->swap(*c);
                delete c;
            }
            after(two(ma, post));
        } else { R.kind = "unknown-op"; return skip(); }
        // probes
        justRehashed = false;
        if (a->nbuckets() != nb0) { if (nb0 == 0) R.res.count("probe:first-buckets"); else if (o != "swap" && o != "assign_from_b" && o != "copy_ctor") { R.res.count("probe:rehash"); justRehashed = true; } }
        if (ma.size() < n && a->eraseCount() < ec0 + (n - ma.size()) && o != "clear" && o != "swap" && o != "assign_from_b") R.res.count("probe:compaction");
        if (free0 && ma.size() > n && o != "swap" && o != "assign_from_b") R.res.count("probe:free-entry-reused");
        if (hashMode() != 0 && ma.size() >= 4) R.res.count("probe:forced-collisions");
    }
    void finish() { R.phase = "destroy"; delete a; a = 0; delete b; b = 0; }
};

// ================================================================================================== XalanSet
template <class E> struct SetRun {
    typedef typename E::T T; typedef xalanc::XalanSet<T> S_; typedef typename E::Val Val;
    Run& R; S_* a; S_* b; IM ma, mb; size_t erases; bool grew;

    explicit SetRun(Run& r) : R(r), a(0), b(0), erases(0), grew(false) {
        R.apiClass = "XalanSet";
        hashMode() = (int)(R.plan.at("knobs").num("hash", 0) % 3);
        a = new S_(R.mm); b = new S_(R.mmB());
        R.snapshot = [this] { Json o = Json::object(); o["op"] = "force_state"; o["a"] = jsonMap(ma); o["b"] = jsonMap(mb); return o; };
    }
    IM read(const S_& s, const char* which) {
        IM r; size_t cnt = 0;
        for (typename S_::const_iterator it = s.begin(); it != s.end(); ++it) {
            const int k = E::id(*it);
            if (!r.insert(std::make_pair(k, 1)).second) R.inconsistent("duplicate-key", std::string(which) + " iterates key " + std::to_string(k) + " twice");
            if (++cnt > 100000) break;
        }
        return r;
    }
    void verify(const S_& s, const IM& model, const char* which, int extraKey) {
        const std::string w = which;
        if (s.size() != model.size()) { R.inconsistent("size", w + ".size()=" + std::to_string(s.size()) + " but iteration gives " + std::to_string(model.size())); R.stop = true; return; }
        std::set<int> keys; for (int k = 0; k < 12; ++k) keys.insert(k); for (auto& kv : model) keys.insert(kv.first); if (extraKey >= 0) keys.insert(extraKey);
        for (int k : keys) {
            Val kx(k, R.mm); const bool want = model.count(k) != 0;
            typename S_::const_iterator it = s.find(kx.x); const bool found = it != s.end();
            if (found != want || s.count(kx.x) != (want ? 1u : 0u)) { R.inconsistent("find", w + ".find/count(" + std::to_string(k) + ") disagree with iteration"); break; }
            if (found && E::id(*it) != k) { R.inconsistent("find-key", w + ".find(" + std::to_string(k) + ") points at " + std::to_string(E::id(*it))); break; }
        }
    }
    void after(const std::vector<IM>& okA, int extraKey = -1, const std::vector<IM>* okB = 0) {
        { IM S = read(*a, "A"); MapSettle::settle(R, ma, okA, S, "A"); }
        { IM S = read(*b, "B"); std::vector<IM> ob; if (okB) ob = *okB; else ob.push_back(mb); MapSettle::settle(R, mb, ob, S, "B"); }
        verify(*a, ma, "A", extraKey); if (!R.stop) verify(*b, mb, "B", extraKey);
        if (E::counted) R.checkCounted((long)(ma.size() + mb.size()));
        R.finishOp(ma.size(), hashMap(ma) ^ (hashMap(mb) * 31));
    }
    void skip() { R.res.count("skipped-ops"); R.tr.ev("skip " + R.kind); }
    static std::vector<IM> two(const IM& pre, const IM& post) { std::vector<IM> v; v.push_back(pre); v.push_back(post); return v; }

    void step() {
        const std::string o = R.op->str("op"); R.kind = o;
        const size_t n = ma.size();
        // XalanSet's map has the default parameters: 29 initial buckets, load factor 0.75 (first rehash at the 40th element), erase threshold 50
        R.stateClass = std::string(n == 0 ? "empty" : n < 39 ? "below-rehash-threshold" : n == 39 ? "at-rehash-threshold" : "beyond-first-rehash") + (erases % 50 == 49 ? "+at-compaction-threshold" : "");
        const int k = (int)(R.uarg("k") & 0xfff);
        IM post = ma; const bool present = ma.count(k) != 0;
        if (o == "force_state") {
            const std::vector<int> va = R.vals("a"), vb = R.vals("b"); IM wa, wb; a->clear(); b->clear(); erases = 0;
            for (size_t i = 0; i + 1 < va.size(); i += 2) { Val kx(va[i], R.mm); a->insert(kx.x); wa[va[i]] = 1; }
            for (size_t i = 0; i + 1 < vb.size(); i += 2) { Val kx(vb[i], R.mm); b->insert(kx.x); wb[vb[i]] = 1; }
            std::vector<IM> okB = two(mb, wb); after(two(ma, wa), -1, &okB);
        } else if (o == "insert") {
            Val kx(k, R.mm); post[k] = 1; R.kind = present ? "insert-existing" : "insert-new";
            R.call([&] { a->insert(kx.x); }); after(two(ma, post), k);
        } else if (o == "erase") {
            Val kx(k, R.mm); post.erase(k); size_t cnt = 0; R.kind = present ? "erase-present" : "erase-absent";
            R.call([&] { cnt = a->erase(kx.x); });
            if (!R.threw && cnt != (present ? 1u : 0u)) R.bad("erase-count", "erase returned " + std::to_string(cnt));
            after(two(ma, post), k);
        } else if (o == "find") {
            Val kx(k, R.mm); bool found = false; size_t c = 0; R.kind = present ? "find-present" : "find-absent";
            R.call([&] { const S_& ca = *a; found = ca.find(kx.x) != ca.end(); c = ca.count(kx.x); });
            if (found != present || c != (present ? 1u : 0u)) R.bad("find", "find/count(" + std::to_string(k) + ")");
            after(two(ma, post), k);
        } else if (o == "insert_range" || o == "erase_range") {
            const unsigned cnt = R.uarg("n") % 65, stride = 1 + R.uarg("stride") % 31; const bool ins = o == "insert_range";
            std::vector<std::unique_ptr<Val> > ks; std::vector<IM> ok; ok.push_back(ma); IM cur = ma;
            for (unsigned j = 0; j < cnt; ++j) {
                const int kk = (int)((k + j * stride) & 0xfff); ks.emplace_back(new Val(kk, R.mm));
                if (ins) cur[kk] = 1; else cur.erase(kk);
                ok.push_back(cur);
            }
            R.call([&] { for (unsigned j = 0; j < cnt; ++j) { if (ins) a->insert(ks[j]->x); else a->erase(ks[j]->x); } });
            after(ok, k);
        } else if (o == "clear") {
            post.clear(); R.call([&] { a->clear(); }); after(two(ma, post)); erases = 0;
        } else if (o == "assign_from_b") {
            post = mb; R.call([&] { *a = *b; }); after(two(ma, post)); erases = 0;
        } else if (o == "assign_to_b") {
            std::vector<IM> okB = two(mb, ma); R.call([&] { *b = *a; }); after(two(ma, post), -1, &okB);
        } else if (o == "copy_ctor") {
            S_* c = 0; R.call([&] { c = new S_(*a, R.mm); });
            if (c) { IM S = read(*c, "copy"); if (S != ma || c->size() != ma.size()) R.bad("copy-contents", "copy is " + show(S) + ", source " + show(ma)); if (R.arg("keep")) { S_* t = a; a = c; c = t; erases = 0; } delete c; }
            after(two(ma, post));
        } else { R.kind = "unknown-op"; return skip(); }
        if (ma.size() < n && o != "clear" && o != "assign_from_b") { const size_t before = erases; erases += n - ma.size(); if (before / 50 != erases / 50) R.res.count("probe:set-compaction"); }
        if (n < 40 && ma.size() >= 40 && o != "assign_from_b") R.res.count("probe:set-rehash");
    }
    void finish() { R.phase = "destroy"; delete a; a = 0; delete b; b = 0; }
};

} // namespace c20
