// C05 — the result does not depend on how source, stylesheet and output are supplied.
// One run = one (stylesheet, source, params) tuple executed through 4-7 forms drawn from
// source form x stylesheet form x target form x API layer, with benign transport perturbations always on.
#include "xform.hpp"
#include <xalanc/XalanTransformer/XalanCAPI.h>
#include <xalanc/PlatformSupport/URISupport.hpp>
#include <sys/wait.h>
#include <fcntl.h>

using namespace sim;
using namespace xalanc;

namespace {

struct FormOut { int status = -99; bool threw = false; std::string exc, bytes, canon, err; bool isTree = false; bool flushedLast = true; uint64_t writes = 0; std::vector<size_t> chunks; };

std::string runCli(const std::string& exe, const std::vector<std::string>& args, int& rc) {
    fflush(stdout); fflush(stderr);
    pid_t pid = fork();
    if (pid == 0) {
        std::vector<char*> av; av.push_back((char*)exe.c_str()); for (auto& a : args) av.push_back((char*)a.c_str()); av.push_back(nullptr);
        int dn = open("/dev/null", O_WRONLY); if (dn >= 0) { dup2(dn, 2); dup2(dn, 1); }
        setenv("ASAN_OPTIONS", "detect_leaks=0:exitcode=77", 1);      // the sanitizer build of the executable would turn what Xerces-C loses on its own (scanProlog with an external subset) into exit status 1
        execv(exe.c_str(), av.data()); _exit(127);
    }
    int st = 0; waitpid(pid, &st, 0); rc = WIFEXITED(st) ? WEXITSTATUS(st) : 128 + WTERMSIG(st);
    return "";
}

struct C05 : public Driver {
    const char* property() const override { return "C05"; }
    void init() override { xalanInitOnce(); }

    Json makePlan(uint64_t verifSeed, uint64_t run, const std::string& tier) override {
        uint64_t seed = runSeed(verifSeed, "C05", run);
        Rng root(seed); Rng g = root.fork("gen"), gf = root.fork("forms");
        Json p = Json::object(); p["property"] = "C05"; p["run"] = (long long)run; p["seed"] = hex64(seed); p["tier"] = tier;
        DocCfg dc; dc.maxNodes = (int)g.range(6, 50); dc.dtd = g.chance(1, 4); dc.ns = g.chance(3, 4); dc.ssPI = true; dc.manyNames = g.chance(1, 10); if (dc.manyNames) dc.maxNodes = 80; dc.rebind = g.chance(1, 5); dc.extDtd = dc.dtd && g.chance(1, 3);
        GenDoc d = genDoc(g, dc);
        // features that expose the two documented wrapper data-model deviations are kept to a small share of the runs
        std::set<std::string> ex; if (!g.chance(1, 12)) ex.insert("ns-axis"); if (!g.chance(1, 12)) ex.insert("doctype-node"); ex.insert("genid"); ex.insert("doe");
        auto allowed = featuresExcept(ex);
        SSCfg sc; sc.on = pickFeatures(g, allowed, 3, 10); sc.useImport = g.chance(1, 3); sc.useInclude = g.chance(1, 4); sc.docFn = g.chance(1, 3); sc.stripSpace = g.chance(1, 3);
        static const std::vector<std::string> encs = { "UTF-8", "UTF-8", "UTF-8", "ISO-8859-1", "US-ASCII", "UTF-16" }; sc.encoding = g.pick(encs); sc.cdataElems = g.chance(1, 8);
        static const std::vector<std::string> orders = { "doc", "rk", "rev" }; sc.order = g.pick(orders);
        bool useParams = g.chance(1, 3); if (useParams) sc.on.insert("paramuse");
        // self-reference mode: the stylesheet reaches the source document again through document('doc.xml') and looks at node identity.  Every form must
        // have registered the source under the URL its system id stands for, however the caller wrote that system id.
        Rng gs = root.fork("selfdoc"); const bool selfDoc = run % 8 == 3; sc.selfDoc = selfDoc;
        GenSS s = genStylesheet(g, sc, d);
        p["doc"] = d.xml; p["xsl"] = s.xsl; p["encoding"] = sc.encoding; p["dtd"] = dc.dtd;
        // one run in eight: the same document in UTF-16 (zero bytes all over the buffer the caller hands in)
        const bool u16 = !selfDoc && root.fork("utf16-doc").chance(1, 8);
        if (u16) { std::string o = "\xFF\xFE"; std::string x = d.xml; { size_t q = x.find("encoding=\"UTF-8\""); if (q != std::string::npos && q < 60) x.replace(q, 16, "encoding=\"UTF-16\""); }
            for (size_t i = 0; i < x.size(); ) { unsigned char c0 = (unsigned char)x[i]; uint32_t cp; size_t n = c0 < 0x80 ? 1 : c0 < 0xE0 ? 2 : c0 < 0xF0 ? 3 : 4; if (i + n > x.size()) break;
                if (n == 1) cp = c0; else if (n == 2) cp = ((c0 & 0x1F) << 6) | (x[i + 1] & 0x3F); else if (n == 3) cp = ((c0 & 0x0F) << 12) | ((x[i + 1] & 0x3F) << 6) | (x[i + 2] & 0x3F); else cp = ((c0 & 0x07) << 18) | ((x[i + 1] & 0x3F) << 12) | ((x[i + 2] & 0x3F) << 6) | (x[i + 3] & 0x3F);
                i += n; auto unit = [&](uint32_t u) { o += (char)(u & 0xFF); o += (char)(u >> 8); }; if (cp >= 0x10000) { cp -= 0x10000; unit(0xD800 + (cp >> 10)); unit(0xDC00 + (cp & 0x3FF)); } else unit(cp); }
            p["doc"] = o; p["doc_utf16"] = true; p["doc_utf8"] = d.xml; }      /* the UTF-8 original is what the attribution experiment below edits */
        Json res = Json::object(); for (auto& kv : s.resources) res[kv.first] = kv.second; for (auto& kv : d.resources) res[kv.first] = kv.second; p["resources"] = res;
        Json feats = Json::array(); for (auto& f : s.features) feats.push(f); p["features"] = feats;
        { Json ex = Json::array(); for (auto& e : s.expect) { Json pr = Json::array(); pr.push(e.first); pr.push(e.second); ex.push(pr); } p["expect"] = ex; }
        Json params = Json::array(); if (useParams) { Json a = Json::object(); a["name"] = "P1"; a["kind"] = "string"; a["value"] = "pv" + std::to_string(g.below(100)); params.push(a); Json b = Json::object(); b["name"] = "P2"; b["kind"] = "number"; b["value"] = std::to_string(g.range(-30, 90)); params.push(b); }
        p["params"] = params;
        static const std::vector<std::string> sysIds = { "path", "path", "url" };
        if (selfDoc) { p["selfdoc"] = true; }
        // forms: the reference first
        static const std::vector<std::string> sf = { "stream", "inputsource", "file", "parsed", "parsed-xerces", "wrapper", "builder", "stwrapper" };
        static const std::vector<std::string> ssf = { "stream", "inputsource", "file", "compiled", "pi" };
        static const std::vector<std::string> tf = { "callback", "ostream", "cfile", "filename", "writer", "xercesdom", "sourcetree" };
        Json forms = Json::array();
        auto form = [&](const std::string& a, const std::string& b, const std::string& c, const std::string& layer) { Json f = Json::object(); f["src"] = a; f["ss"] = b; f["target"] = c; f["layer"] = layer;
            f["chunk"] = (long long)gf.pick(std::vector<int>{ 0, 1, 3, 7, 64, 511, 512, 513 }); f["cseed"] = (long long)(gf.next() >> 12); f["buf"] = (long long)gf.pick(std::vector<int>{ 1, 2, 3, 5, 16, 511, 512, 513, 4096 }); f["tblock"] = (long long)gf.pick(std::vector<int>{ 1, 2, 7, 64, 1024 }); if (selfDoc) f["docsysid"] = gs.pick(sysIds); forms.push(f); };
        form("stream", "stream", "callback", "cpp");
        int n = (int)gf.range(3, 6);
        static const std::vector<std::string> sfSelf = { "stream", "inputsource", "file", "parsed", "parsed", "parsed-xerces", "parsed-xerces", "wrapper", "builder", "stwrapper" }, ssfSelf = { "stream", "inputsource", "file", "compiled" };
        for (int i = 0; i < n; ++i) {
            if (selfDoc) { form(gf.pick(sfSelf), gf.pick(ssfSelf), gf.pick(tf), "cpp"); continue; }   // real files next to each other, named by plain path or by URL
            unsigned k = (unsigned)gf.below(10);
            if (k == 0) form("file", gf.chance(1, 3) ? "pi" : "file", "filename", "capi");                      // XalanTransformToFile / ToData
            else if (k == 1 && res.size() == 0 && gf.fork("capi-stream").chance(1, 2)) form("stream", "stream", "capi-stream", "capi");      // both inputs as memory buffers (nothing to resolve relative to them)
            else if (k == 1) form("file", "file", gf.chance(1, 2) ? "capi-data" : "capi-handler", "capi");
            else if (k == 2 && run % 6 == 1) form("file", gf.chance(1, 4) ? "pi" : "file", "filename", "cli");
            else if (k < 5) form("stream", "stream", gf.pick(tf), "cpp");                                      // differs from the reference in target/perturbation only
            else { std::string a = gf.pick(sf), b = gf.pick(ssf); if (b == "pi") a = "file";   // the xml-stylesheet PI is resolved against the document's real location
                form(a, b, gf.pick(tf), "cpp"); }
        }
        // fault mode: one destructive input fault applied identically to every form
        if (!selfDoc && g.chance(1, 5) && !u16) { for (auto& ff : forms.a) if (ff.str("ss") == "pi") ff["ss"] = "file";   // a fault inside the xml-stylesheet PI legitimately matters to the PI form only
            SrcFault f; f.kind = g.chance(1, 2) ? "truncate" : "flip"; bool onDoc = g.chance(1, 2); const std::string& b = onDoc ? d.xml : s.xsl; f.a = g.below(b.size()); f.b = g.below(8); Json j = f.toJson(); j["on"] = onDoc ? "doc" : "xsl"; p["fault"] = j; }
        // the caller overrides the output encoding on the transformer (C++ layer only: the C API and the command line have other means or none);
        // every target form must then deliver that encoding
        { Rng go = root.fork("override-enc"); if (go.chance(1, 6)) { static const std::vector<std::string> oe = { "ISO-8859-1", "UTF-16", "US-ASCII", "UTF-8" }; p["override_enc"] = go.pick(oe);
            for (auto& ff : forms.a) if (ff.str("layer") != "cpp") { ff["src"] = "stream"; ff["ss"] = "stream"; ff["target"] = go.chance(1, 2) ? "ostream" : "callback"; ff["layer"] = "cpp"; } } }
        p["forms"] = forms;
        return p;
    }

    FormOut runForm(const Json& plan, const Json& f, Result& res) {
        FormOut fo; std::string layer = f.str("layer", "cpp"), tgt = f.str("target");
        SrcFault docF, xslF; if (plan.has("fault")) { SrcFault x = SrcFault::fromJson(plan.at("fault")); if (plan.at("fault").str("on") == "doc") docF = x; else xslF = x; }
        docF.maxChunk = xslF.maxChunk = (unsigned)f.num("chunk"); docF.chunkSeed = xslF.chunkSeed = (uint64_t)f.num("cseed");
        std::vector<Param> params; for (auto& a : plan.at("params").a) params.push_back(Param{ a.str("name"), a.str("kind"), a.str("value") });
        if (layer == "cpp") {
            XEnv env; for (auto& kv : plan.at("resources").o) env.fs.put(kv.first, kv.second.s);
            applyParams(*env.T, params, env.manager());
            if (plan.has("override_enc")) { env.T->setOutputEncoding(xs(plan.str("override_enc"), env.manager())); res.count("probe:output-encoding-overridden"); }
            XReq rq; rq.doc = plan.str("doc"); rq.xsl = plan.str("xsl"); rq.srcForm = f.str("src"); rq.ssForm = f.str("ss"); rq.tgtForm = tgt; rq.docFault = docF; rq.xslFault = xslF; rq.bufSize = (unsigned)f.num("buf", 512); rq.tblock = (unsigned)f.num("tblock", 1024); 
            if (plan.has("selfdoc")) {
                // everything lives in real files of one directory; the caller names the source by its plain path or by its URL
                std::string dp = writeScratch(env, "doc.xml", rq.doc), sp = writeScratch(env, "ss.xsl", rq.xsl); for (auto& kv : plan.at("resources").o) writeScratch(env, kv.first, kv.second.s);
                XalanDOMString u(env.manager()); URISupport::getURLStringFromString(xs(dp, env.manager()), u); rq.docUrl = toUtf8(u);
                rq.docSysId = f.str("docsysid") == "url" ? rq.docUrl : dp; rq.ssSysId = sp; res.count("selfdoc:" + f.str("docsysid"));
            }
            const XalanCompiledStylesheet* cs = nullptr; XformOut o;
            if (rq.ssForm == "compiled") {
                env.fs.put("ss.xsl", rq.xsl); std::string seen = applySrcFault(rq.xsl, xslF); SimIStream is(seen, xslF); XSLTInputSource in(&is, env.manager()); in.setSystemId(xs(rq.ssSysId.empty() ? std::string(SIM_BASE) + "ss.xsl" : rq.ssSysId, env.manager()).c_str());
                XformOut tmp; try { int st = env.T->compileStylesheet(in, cs); if (st != 0) { fo.status = st; fo.err = env.T->getLastError(); removeScratch(env); return fo; } } SIM_CATCH_ALL(tmp) if (tmp.threw) { fo.threw = true; fo.exc = tmp.exc; removeScratch(env); return fo; }
            }
            SimSink sink; o = runTransform(env, rq, sink, nullptr, cs);
            fo.status = o.status; fo.threw = o.threw; fo.exc = o.exc; fo.err = o.err; fo.bytes = o.bytes; fo.isTree = (tgt == "xercesdom" || tgt == "sourcetree"); if (fo.isTree) fo.canon = o.canon;
            fo.flushedLast = o.flushedLast || o.sinkWrites == 0; fo.writes = o.sinkWrites; fo.chunks = o.chunks;
            if (tgt == "callback" && o.ok() && o.sinkWrites > 0 && !o.flushedLast) res.violate("flush-not-last", "callback", "the flush handler was not called after the last write of the callback form");
            removeScratch(env);
        } else {
            // file based layers: a private scratch directory holds doc.xml, ss.xsl and the resources
            XEnv tmpEnv; std::string docPath = writeScratch(tmpEnv, "doc.xml", applySrcFault(plan.str("doc"), docF)), ssPath = writeScratch(tmpEnv, "ss.xsl", applySrcFault(plan.str("xsl"), xslF));
            for (auto& kv : plan.at("resources").o) writeScratch(tmpEnv, kv.first, kv.second.s);
            std::string outPath = tmpEnv.scratchDir + "/out.xml"; bool pi = f.str("ss") == "pi";
            if (layer == "cli") {
                const char* exe = getenv("VERIF_XALAN_EXE"); if (!exe) { fo.status = -98; fo.err = "no Xalan executable"; removeScratch(tmpEnv); return fo; }
                std::vector<std::string> args = { "-o", outPath }; for (auto& pa : params) { args.push_back("-p"); args.push_back(pa.name); args.push_back(pa.kind == "number" ? pa.value : "'" + pa.value + "'"); }
                if (pi) { args.push_back("-a"); args.push_back(docPath); } else { args.push_back(docPath); args.push_back(ssPath); }
                int rc = 0; runCli(exe, args, rc); fo.status = rc; if (rc == 0) { try { fo.bytes = readFile(outPath); } catch (...) { fo.status = -97; } } else fo.err = "exit " + std::to_string(rc);
                res.count("layer:cli");
            } else {
                XalanHandle h = CreateXalanTransformer(); XformOut ex;
                try {
                    for (auto& pa : params) { if (pa.kind == "number") XalanSetStylesheetParamNumber(pa.name.c_str(), atof(pa.value.c_str()), h); else XalanSetStylesheetParam(pa.name.c_str(), ("'" + pa.value + "'").c_str(), h); }
                    if (tgt == "capi-stream") { const std::string db = applySrcFault(plan.str("doc"), docF), xb = applySrcFault(plan.str("xsl"), xslF); XalanCSSHandle css = nullptr; XalanPSHandle psh = nullptr; SimSink sink;
                        fo.status = XalanCompileStylesheetFromStream(xb.data(), (unsigned long)xb.size(), h, &css);
                        if (fo.status == 0) fo.status = XalanParseSourceFromStream(db.data(), (unsigned long)db.size(), h, &psh);
                        if (fo.status == 0) { fo.status = XalanTransformToHandlerPrebuilt(psh, css, h, &sink, sinkCallback, sinkFlushCallback); fo.bytes = sink.bytes; }
                        if (fo.status != 0) { const char* e = XalanGetLastError(h); fo.err = e ? e : ""; }
                        if (psh) XalanDestroyParsedSource(psh, h); if (css) XalanDestroyCompiledStylesheet(css, h); res.count("layer:capi-stream"); }
                    else if (tgt == "capi-data") { char* out = nullptr; fo.status = XalanTransformToData(docPath.c_str(), pi ? nullptr : ssPath.c_str(), &out, h); if (fo.status == 0 && out) { fo.bytes = out; XalanFreeData(out); } }
                    else if (tgt == "capi-handler") { SimSink sink; fo.status = XalanTransformToHandler(docPath.c_str(), pi ? nullptr : ssPath.c_str(), h, &sink, sinkCallback, sinkFlushCallback); fo.bytes = sink.bytes; }
                    else { fo.status = XalanTransformToFile(docPath.c_str(), pi ? nullptr : ssPath.c_str(), outPath.c_str(), h); if (fo.status == 0) { try { fo.bytes = readFile(outPath); } catch (...) {} } }
                    if (fo.status != 0) { const char* e = XalanGetLastError(h); fo.err = e ? e : ""; }
                } SIM_CATCH_ALL(ex)
                if (ex.threw) { fo.threw = true; fo.exc = ex.exc; }
                DeleteXalanTransformer(h); res.count("layer:capi");
            }
            removeScratch(tmpEnv);
        }
        return fo;
    }

    static bool okRefEarly(const FormOut& r) { return r.status == 0 && !r.threw; }
    static bool oddXmlVersion(const Json& plan) {
        std::string doc = plan.str("doc"); if (plan.has("fault") && plan.at("fault").str("on") == "doc") doc = applySrcFault(doc, SrcFault::fromJson(plan.at("fault")));
        size_t a = doc.find("<?xml version=\""); if (a != 0) return false; size_t b = doc.find('"', 15); if (b == std::string::npos) return false;
        const std::string v = doc.substr(15, b - 15); return v != "1.0" && v != "1.1";
    }
    static std::string dimDiff(const Json& a, const Json& b) {
        std::string d; for (const char* k : { "src", "ss", "target", "layer" }) if (a.str(k) != b.str(k)) { if (!d.empty()) d += "+"; d += std::string(k) + ":" + b.str(k); }
        return d.empty() ? "perturbation-only" : d;
    }

    void execute(const Json& plan, Result& res, Trace& tr) override {
        const Json& forms = plan.at("forms"); if (forms.a.empty()) { res.harness("no forms"); return; }
        bool faulty = plan.has("fault"); if (faulty) res.count("fault:src-" + plan.at("fault").str("kind"));
        bool utf16 = plan.str("encoding") == "UTF-16";
        std::vector<FormOut> outs;
        for (auto& f : forms.a) {
            Json ff = f; if (utf16 && ff.str("target") == "capi-data") ff["target"] = "capi-handler";     // a NUL-terminated buffer cannot carry UTF-16
            FormOut o = runForm(plan, ff, res); outs.push_back(o);
            if (getenv("C05_DUMP")) fprintf(stderr, "DUMP %s|%s|%s|%s st=%d [%s]\n%s\n", ff.str("src").c_str(), ff.str("ss").c_str(), ff.str("target").c_str(), ff.str("docsysid", "").c_str(), o.status, o.err.c_str(), (o.isTree ? o.canon : o.bytes).c_str());
            res.count("forms_run"); res.tag(ff.str("src") + "|" + ff.str("ss") + "|" + ff.str("target") + "|" + ff.str("layer"));
            if (ff.num("chunk")) res.count("fault:src-short-read"); if (ff.str("target") == "writer") res.count("fault:buf-sizes");
            tr.ev(ff.str("src") + ">" + ff.str("ss") + ">" + ff.str("target") + "@" + ff.str("layer") + " st=" + std::to_string(o.status) + " threw=" + o.exc + " out=" + hex64(fnvStr(o.isTree ? o.canon : o.bytes)));
        }
        const FormOut& ref = outs[0]; const Json& rf = forms.a[0];
        // a generated tuple is meant to transform: a reference that fails with nothing faulted compares nothing (generator slip, or a library error on valid input)
        if (!faulty) { if (ref.status != 0 || ref.threw) { res.count("reference_failed_without_fault"); tr.ev("ref-failed " + ref.err.substr(0, 120)); } else res.count("reference_succeeded_without_fault"); }
        bool nontrivial = false; for (auto& f : plan.at("features").a) if (f.s == "sort2" || f.s == "key" || f.s == "keyids" || f.s.compare(0, 4, "num-") == 0 || f.s == "docfn") nontrivial = true; if (nontrivial) res.count("tuples_with_nontrivial_feature");
        std::string refCanon;
        auto canonOf = [&](const FormOut& o) -> std::string { if (o.isTree) return o.canon; if (emptyResult(o.bytes)) return "D{}"; std::string e; std::string c = canonFromBytes(o.bytes, &e); return c.empty() ? "NOT-WELL-FORMED:" + e : c; };
        // A result tree need not be a document (top-level text, several or no top-level elements): the DOM / source-tree
        // targets cannot hold such a tree, so only the byte forms are compared then.
        const bool refIsDocument = ref.status == 0 && !ref.threw && (refCanon = canonOf(ref)).compare(0, 16, "NOT-WELL-FORMED:") != 0;
        if (ref.status == 0 && !ref.threw && !refIsDocument) res.count("probe:result-is-not-a-document");
        // every generated stylesheet writes one document element with the xml output method: without a fault, output that does not parse is wrong whatever the forms agree on
        if (ref.status == 0 && !ref.threw && !refIsDocument && !faulty) res.violate("expected-output", "well-formed-xml", "the xml output of the reference form does not parse: " + refCanon.substr(0, 200));
        // observations whose content the generator knows beforehand (every form shares the engine, so agreement between forms says nothing about them)
        if (refIsDocument && !faulty && plan.has("expect")) for (auto& e : plan.at("expect").a) {      /* a flipped bit can leave a valid stylesheet that means something else (the XSLT namespace URI one character off: everything becomes literal result elements) */
            if (e.a.size() != 2) continue; const std::string mk = "^f=" + e.a[0].s + ";"; size_t q = refCanon.find(mk); if (q == std::string::npos) continue;
            size_t end = refCanon.find("E{|o|^f=", q); const std::string rec = refCanon.substr(q, end == std::string::npos ? std::string::npos : end - q); res.count("expected_outputs_checked");
            if (rec.find(e.a[1].s) == std::string::npos) res.violate("expected-output", e.a[0].s, "the observation of feature " + e.a[0].s + " is [" + rec.substr(0, 300) + "], it must contain [" + e.a[1].s + "]");
        }
        for (size_t i = 1; i < outs.size(); ++i) {
            const FormOut& o = outs[i]; const Json& f = forms.a[i]; std::string dim = dimDiff(rf, f);
            if (ref.status == 0 && !ref.threw && !refIsDocument && (o.isTree || f.str("src") != rf.str("src") || f.str("ss") != rf.str("ss"))) continue;
            bool okRef = ref.status == 0 && !ref.threw, okO = o.status == 0 && !o.threw;
            res.count("pairs_compared");
            // An XML declaration naming a version other than 1.0 / 1.1 (a bit flip can produce "1.2"): Xerces' SAX scanner goes on, its DOM parser
            // throws DOMException.  In the wrapper form that parser is the caller's own; in the parsed-xerces form it is the one the library uses.
            if (okRefEarly(ref) && !(o.status == 0 && !o.threw) && oddXmlVersion(plan) && (f.str("src") == "wrapper" || f.str("src") == "parsed-xerces")) {
                if (f.str("src") == "wrapper") { res.count("probe:caller-dom-parser-rejected-xml-version"); continue; }
                res.violate("forms-disagree-status", "src:parsed-xerces|xml-version", "the document declares an XML version other than 1.0 / 1.1: the reference form succeeds, parseSource(useXercesDOM) fails [" + o.err.substr(0, 160) + "]"); continue;
            }
            if (faulty) {
                // every form must fail on a destructively faulted input, or all must succeed (a fault that left the input valid)
                if (okRef != okO) res.violate("forms-disagree-under-fault", dim, "with the same " + plan.at("fault").str("kind") + " fault on the " + plan.at("fault").str("on") + " the reference form " + (okRef ? "succeeds" : "fails [" + ref.err.substr(0, 150) + "]") + " but form " + dim + (okO ? " succeeds" : " fails [" + o.err.substr(0, 150) + "]"));
                else if (okRef && okO) { /* compared below like a fault-free tuple */ }
                if (!(okRef && okO)) continue;
            }
            if (okRef != okO) { res.violate("forms-disagree-status", f.str("src") != rf.str("src") ? "src:" + f.str("src") : f.str("ss") != rf.str("ss") ? "ss:" + f.str("ss") : "target:" + f.str("target") + "@" + f.str("layer"), "reference form (stream, stream, callback, C++): status " + std::to_string(ref.status) + " [" + ref.err.substr(0, 150) + "]; form " + dim + ": status " + std::to_string(o.status) + (o.threw ? " exception " + o.exc : "") + " [" + o.err.substr(0, 200) + "]"); continue; }
            if (!okRef) continue;
            bool sameInputs = f.str("src") == rf.str("src") && f.str("ss") == rf.str("ss");
            if (sameInputs && !o.isTree) {
                // differs in target form, layer or transport perturbation only: byte-identical
                if (o.bytes != ref.bytes) { std::string d; std::string feat = firstObsDiff(ref.bytes, o.bytes, &d); res.violate("bytes-differ", "target:" + f.str("target") + "@" + f.str("layer") + "|" + feat, "same inputs, target form " + f.str("target") + " (" + f.str("layer") + "): " + d); }
                continue;
            }
            // differs in source / stylesheet form (or the target is a tree): canonical trees must be equal
            std::string c = canonOf(o);
            if (c != refCanon) {
                std::string d, feat = "tree";      // located in the canonical trees (bytes may legitimately differ in attribute order)
                { size_t k = 0; while (k < c.size() && k < refCanon.size() && c[k] == refCanon[k]) ++k; d = "canonical trees differ at offset " + std::to_string(k) + ": ..." + refCanon.substr(k > 40 ? k - 40 : 0, 120) + "... vs ..." + c.substr(k > 40 ? k - 40 : 0, 120) + "..."; }
                if (feat == "tree") { size_t k = 0; while (k < c.size() && k < refCanon.size() && c[k] == refCanon[k]) ++k; size_t q = refCanon.rfind("^f=", k); if (q != std::string::npos) { size_t e = refCanon.find(';', q); feat = refCanon.substr(q + 3, e == std::string::npos ? 20 : e - q - 3); } }
                // the dimension held responsible: the source form if it differs, else the stylesheet form, else the (tree) target
                std::string which = f.str("src") != rf.str("src") ? "src:" + f.str("src") : f.str("ss") != rf.str("ss") ? "ss:" + f.str("ss") : "target:" + f.str("target");
                // Attribution by difference.  A stylesheet that a bit flip changed (or a feature marker that does not precede the difference) leaves
                // the feature unknown.  The Xerces-DOM-backed source forms are known to show the DocumentType node to node() tests: if the same pair
                // of forms agrees once the DOCTYPE is taken out of the document, that node is what the difference is about.
                if (feat != "doctype-node" && feat != "ns-axis" && plan.boolean("dtd") && (f.str("src") == "parsed-xerces" || f.str("src") == "wrapper")) {
                    // (the bytes the forms actually saw: a fault on the document is applied first, then taken out of the plan, so that it does not land elsewhere)
                    std::string doc = plan.has("doc_utf8") ? plan.str("doc_utf8") : plan.str("doc"); const bool docFaulted = plan.has("fault") && plan.at("fault").str("on") == "doc";
                    if (docFaulted) doc = applySrcFault(doc, SrcFault::fromJson(plan.at("fault")));
                    size_t a = doc.find("<!DOCTYPE"), b = a == std::string::npos ? a : doc.find("]>", a);
                    if (b != std::string::npos) {
                        // two controlled variants of the document: without any DOCTYPE the forms must agree, and with an empty one (the node is there,
                        // the declarations - entities, ID attributes - are not) they must still differ; only then is the node itself the cause
                        Json p2 = plan; if (docFaulted) { Json o2 = Json::object(); for (auto& kv : p2.o) if (kv.first != "fault") o2[kv.first] = kv.second; p2 = o2; }
                        Json p3 = p2; p2["doc"] = doc.substr(0, a) + doc.substr(b + 2); p3["doc"] = doc.substr(0, a) + "<!DOCTYPE doc []>" + doc.substr(b + 2); Result scratch;
                        FormOut r2 = runForm(p2, rf, scratch), o2 = runForm(p2, f, scratch), r3 = runForm(p3, rf, scratch), o3 = runForm(p3, f, scratch);
                        // the experiment looks at the observation record in which the first difference lies, not at the whole tree: another recorded
                        // deviation (the namespace axis) may make the trees differ elsewhere in all variants
                        size_t k0 = 0; while (k0 < c.size() && k0 < refCanon.size() && c[k0] == refCanon[k0]) ++k0;
                        std::string marker; { size_t q = refCanon.rfind("E{|o|^f=", k0); if (q != std::string::npos) { size_t e = refCanon.find("^n=", q); e = e == std::string::npos ? e : refCanon.find(';', e); if (e != std::string::npos) marker = refCanon.substr(q, e - q + 1); } }
                        auto record = [&](const std::string& cn) -> std::string { if (marker.empty()) return cn; size_t q = cn.find(marker); if (q == std::string::npos) return std::string(); size_t e = cn.find("E{|o|^f=", q + marker.size()); return cn.substr(q, e == std::string::npos ? std::string::npos : e - q); };
                        const bool agreeWithout = r2.status == 0 && o2.status == 0 && !r2.threw && !o2.threw && record(canonOf(r2)) == record(canonOf(o2));
                        const bool differWithEmpty = r3.status == 0 && o3.status == 0 && !r3.threw && !o3.threw && record(canonOf(r3)) != record(canonOf(o3));
                        if (agreeWithout && differWithEmpty) { feat = "doctype-node"; res.count("attributed-by-difference:doctype-node"); }
                    }
                }
                res.violate("tree-differs", which + "|" + feat, "form " + dim + " vs reference: " + d);
            }
        }
    }
};

} // namespace

#include <fcntl.h>
int main(int argc, char** argv) { C05 d; return driverMain(argc, argv, d); }
