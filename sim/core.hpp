// Simulator core: PRNG, trace hash, worker protocol.
#pragma once
#include "json.hpp"
#include <cstdint>
#include <string>
#include <vector>
#include <map>
#include <functional>

namespace sim {

inline uint64_t splitmix64(uint64_t& x) {
    uint64_t z = (x += 0x9e3779b97f4a7c15ULL);
    z = (z ^ (z >> 30)) * 0xbf58476d1ce4e5b9ULL;
    z = (z ^ (z >> 27)) * 0x94d049bb133111ebULL;
    return z ^ (z >> 31);
}
inline uint64_t fnv1a(const void* p, size_t n, uint64_t h = 0xcbf29ce484222325ULL) {
    const unsigned char* c = (const unsigned char*)p;
    for (size_t i = 0; i < n; ++i) { h ^= c[i]; h *= 0x100000001b3ULL; }
    return h;
}
inline uint64_t fnvStr(const std::string& s, uint64_t h = 0xcbf29ce484222325ULL) { return fnv1a(s.data(), s.size(), h); }

// xoshiro256**
struct Rng {
    uint64_t s[4];
    explicit Rng(uint64_t seed = 1) { reseed(seed); }
    void reseed(uint64_t seed) { uint64_t x = seed; for (auto& v : s) v = splitmix64(x); }
    static uint64_t rotl(uint64_t x, int k) { return (x << k) | (x >> (64 - k)); }
    uint64_t next() {
        uint64_t r = rotl(s[1] * 5, 7) * 9, t = s[1] << 17;
        s[2] ^= s[0]; s[3] ^= s[1]; s[1] ^= s[2]; s[0] ^= s[3]; s[2] ^= t; s[3] = rotl(s[3], 45);
        return r;
    }
    // uniform in [0,n)
    uint64_t below(uint64_t n) { return n ? next() % n : 0; }
    // uniform in [lo,hi]
    int64_t range(int64_t lo, int64_t hi) { return hi <= lo ? lo : lo + (int64_t)below((uint64_t)(hi - lo + 1)); }
    bool chance(unsigned num, unsigned den) { return below(den) < num; }
    double unit() { return (next() >> 11) * (1.0 / 9007199254740992.0); }
    template <class T> const T& pick(const std::vector<T>& v) { return v[below(v.size())]; }
    // independent sub-stream by name: draws of one do not shift another
    Rng fork(const char* name) const { uint64_t h = fnv1a(name, strlen(name)); return Rng(s[0] ^ rotl(s[1], 13) ^ h); }
};

inline uint64_t runSeed(uint64_t verifSeed, const char* prop, uint64_t run) {
    uint64_t x = verifSeed ^ fnv1a(prop, strlen(prop)) ^ (run * 0x9e3779b97f4a7c15ULL);
    return splitmix64(x);
}

// Ordered trace whose hash is the determinism fingerprint of a run.
struct Trace {
    uint64_t h = 0xcbf29ce484222325ULL;
    size_t events = 0;
    std::vector<std::string> log;      // kept only when verbose
    bool keep = false;
    void ev(const std::string& s) { h = fnvStr(s, h); h = fnv1a("\n", 1, h); ++events; if (keep) log.push_back(s); }
    void ev(const char* k, uint64_t v) { ev(std::string(k) + "=" + std::to_string(v)); }
    std::string hex() const { char b[20]; snprintf(b, sizeof b, "%016llx", (unsigned long long)h); return b; }
};

inline std::string hex64(uint64_t v) { char b[20]; snprintf(b, sizeof b, "%016llx", (unsigned long long)v); return b; }

// Result of one simulated run, serialised as one JSON line.
struct Viol { std::string cls, sig, detail; Json sub; int count = 1; };
struct Result {
    uint64_t run = 0, seed = 0;
    std::string status = "ok";            // ok | violation | harness-error
    std::vector<Viol> viols;              // distinct (class, signature) pairs seen in this run, first occurrence kept
    std::string harnessDetail;
    Json counters = Json::object();       // name -> int (summed by the master)
    Json tags = Json::array();            // strings: distinct-state tuples reached (set-unioned by the master)
    Json extra = Json::object();
    void count(const std::string& k, int64_t n = 1) { Json& j = counters[k]; if (j.t != Json::Int) { j.t = Json::Int; j.i = 0; } j.i += n; }
    void tag(const std::string& t) { for (auto& x : tags.a) if (x.s == t) return; tags.push(t); }
    // sub: top-level plan keys to override so that the plan reproduces exactly this violation (may be null)
    void violateSub(const std::string& c, const std::string& s, const std::string& d, const Json& sub) {
        for (auto& v : viols) if (v.cls == c && v.sig == s) { ++v.count; return; }
        Viol v; v.cls = c; v.sig = s; v.detail = d; v.sub = sub; viols.push_back(v);
        if (status == "ok") status = "violation";
    }
    void violate(const std::string& c, const std::string& s, const std::string& d) { violateSub(c, s, d, Json()); }
    void harness(const std::string& d) { status = "harness-error"; harnessDetail = d; }
};

// Driver interface implemented by each c??.cpp
struct Driver {
    virtual ~Driver() {}
    virtual const char* property() const = 0;
    // build the plan of run #run for the given tier from the seed (pure function of its arguments)
    virtual Json makePlan(uint64_t verifSeed, uint64_t run, const std::string& tier) = 0;
    // execute a plan; must be a pure function of the plan
    virtual void execute(const Json& plan, Result& res, Trace& tr) = 0;
    // optional one-time process initialisation (after Xerces/Xalan init)
    virtual void init() {}
    // true: a serving worker runs every run in a fresh process of its own (the run forks children whose heap addresses - and with them the
    // allocation counts of pointer-keyed hash tables in the library - would otherwise depend on what the worker did before)
    virtual bool isolateRuns() const { return false; }
};

int driverMain(int argc, char** argv, Driver& d);

// SimClock: answers the library's clock()/time()/rand() (symbols interposed from the executable, core.cpp).
struct SimClock {
    enum Mode { Advance, Coarse, Stall, Minus1, Back };
    Mode mode = Advance;
    long now = 1000, first = 1000, delta = 1, coarseEvery = 7, backAt = 0, backBy = 0;
    uint64_t calls = 0, timeCalls = 0, randCalls = 0;
    long fixedTime = 1700000000;
    void reset(Mode m = Advance, long d = 1, long every = 7, long bAt = 0, long bBy = 0) { mode = m; now = first = 1000; delta = d; coarseEvery = every ? every : 1; backAt = bAt; backBy = bBy; calls = timeCalls = randCalls = 0; }
    void configure(const std::string& m, long d = 1, long every = 7, long bAt = 0, long bBy = 0) {
        Mode mm = Advance; if (m == "coarse") mm = Coarse; else if (m == "stall") mm = Stall; else if (m == "minus1") mm = Minus1; else if (m == "back") mm = Back;
        reset(mm, d, every, bAt, bBy);
    }
    long tick() {
        ++calls;
        switch (mode) {
        case Advance: now += delta; break;
        case Coarse: if (calls % (uint64_t)coarseEvery == 0) now += delta; break;
        case Stall: break;
        case Minus1: return -1;
        case Back: now += delta; if ((long)calls == backAt) now -= backBy; break;
        }
        return now;
    }
    long covered() const { return now - first; }
};
extern SimClock g_clock;
extern bool g_traceMode;   // --trace given: drivers may record more detail (allocation sites etc.)

// UBSan report capture (sim/sanhooks.cpp): reports since last reset, as "kind@file:line"
void ubsanReset();
std::vector<std::string> ubsanTake();

} // namespace sim
