// Glue between the simulator and the public Xalan-C API.
#pragma once
#include "core.hpp"
#include "simmem.hpp"
#include "simio.hpp"
#include <xercesc/util/PlatformUtils.hpp>
#include <xercesc/util/XMLException.hpp>
#include <xercesc/sax/SAXException.hpp>
#include <xalanc/XalanTransformer/XalanTransformer.hpp>
#include <xalanc/XalanTransformer/XalanCompiledStylesheet.hpp>
#include <xalanc/XalanTransformer/XalanParsedSource.hpp>
#include <xalanc/XSLT/XSLTInputSource.hpp>
#include <xalanc/XSLT/XSLTResultTarget.hpp>
#include <xalanc/XalanDOM/XalanDOMString.hpp>
#include <xalanc/PlatformSupport/XSLException.hpp>
#include <cxxabi.h>
#include <dlfcn.h>

namespace sim {

inline void xalanInitOnce() {
    static bool done = false; if (done) return; done = true;
    xercesc::XMLPlatformUtils::Initialize();
    xalanc::XalanTransformer::initialize();
}

inline std::string toUtf8(const xalanc::XalanDOMString& s) {
    std::string r; const xalanc::XalanDOMChar* p = s.c_str(); size_t n = s.length();
    for (size_t i = 0; i < n; ++i) {
        uint32_t c = p[i];
        if (c >= 0xD800 && c < 0xDC00 && i + 1 < n && p[i + 1] >= 0xDC00 && p[i + 1] < 0xE000) { c = 0x10000 + ((c - 0xD800) << 10) + (p[i + 1] - 0xDC00); ++i; }
        if (c < 0x80) r += (char)c; else if (c < 0x800) { r += (char)(0xC0 | (c >> 6)); r += (char)(0x80 | (c & 63)); }
        else if (c < 0x10000) { r += (char)(0xE0 | (c >> 12)); r += (char)(0x80 | ((c >> 6) & 63)); r += (char)(0x80 | (c & 63)); }
        else { r += (char)(0xF0 | (c >> 18)); r += (char)(0x80 | ((c >> 12) & 63)); r += (char)(0x80 | ((c >> 6) & 63)); r += (char)(0x80 | (c & 63)); }
    }
    return r;
}

// Strip template arguments and parameter lists and the versioned namespace: stable function identity.
inline std::string normSym(const std::string& in) {
    std::string s; int depth = 0;
    for (size_t i = 0; i < in.size(); ++i) {
        char c = in[i];
        if (c == '<') { if (i > 8 && in.compare(i - 8, 8, "operator") == 0) { s += c; continue; } ++depth; continue; }
        if (c == '>') { if (depth > 0) { --depth; continue; } s += c; continue; }
        if (depth == 0) s += c;
    }
    size_t p = s.find('('); if (p != std::string::npos) s = s.substr(0, p);
    for (const char* ns : { "xalanc_1_12::", "xalanc::", "xercesc_3_2::" }) { size_t q; while ((q = s.find(ns)) != std::string::npos) s.erase(q, strlen(ns)); }
    // drop return type of templates ("void Foo::bar")
    size_t sp = s.rfind(' '); if (sp != std::string::npos && s.find("operator") == std::string::npos) s = s.substr(sp + 1);
    return s;
}
inline std::string symOf(void* addr, bool* inXalan = nullptr) {
    Dl_info di; if (inXalan) *inXalan = false;
    if (!dladdr(addr, &di) || !di.dli_sname) { if (inXalan && di.dli_fname && strstr(di.dli_fname, "libxalan")) *inXalan = true; return "?"; }
    if (inXalan && di.dli_fname && strstr(di.dli_fname, "libxalan")) *inXalan = true;
    int st = 0; char* d = abi::__cxa_demangle(di.dli_sname, nullptr, nullptr, &st);
    std::string r = (st == 0 && d) ? d : di.dli_sname; free(d);
    return normSym(r);
}
// first n frames that lie inside libxalan-c, normalised, joined by '<'
inline std::string xalanFrames(void* const* bt, int n, int want = 4) {
    std::string r; int got = 0; std::string last;
    for (int i = 0; i < n && got < want; ++i) {
        bool in = false; std::string s = symOf(bt[i], &in);
        if (!in || s == "?" ) continue;
        if (s == last) continue; last = s;
        if (got) r += "<"; r += s; ++got;
    }
    return r.empty() ? "no-xalan-frame" : r;
}

// Frames that only say "a container grew": skipped when a signature has to name the responsible function.
inline bool genericFrame(const std::string& f) {
    static const char* const pre[] = { "XalanVector::", "XalanList::", "XalanMap::", "XalanDeque::", "XalanSet::", "XalanConstruct", "XalanCopyConstruct", "XalanAllocate", "XalanDestroy",
        "ArenaAllocator::", "ArenaBlock", "ReusableArena", "XalanMemMgrAutoPtr", "XalanAllocationGuard", "XalanAutoPtr", "std::", "XalanDOMString::", "operator new", "MemoryManagedConstructionTraits",
        "ConstructWithMemoryManager", "ConstructValueWithMemoryManager", "XalanObjectCache", "DefaultCacheCreateFunctor", "XalanMemMgrs::", "allocate", "construct" };
    for (const char* p : pre) if (f.compare(0, strlen(p), p) == 0) return true;
    return f.find("Allocator::create") != std::string::npos || f.find("Allocator::allocateBlock") != std::string::npos;
}
// stable identity of "who asked for this memory": the first `want` non-generic frames inside libxalan-c
inline std::string responsibleFrames(void* const* bt, int n, int want = 2) {
    std::string r; int got = 0; std::string last;
    for (int i = 0; i < n && got < want; ++i) {
        bool in = false; std::string s = symOf(bt[i], &in);
        if (!in || s == "?" || s == last || genericFrame(s)) continue;
        last = s; if (got) r += "<"; r += s; ++got;
    }
    return r.empty() ? xalanFrames(bt, n, 2) : r;
}

} // namespace sim
