// C19 — pluggable memory manager: balanced use; allocation failure is survivable.
// One run = one scenario (history of API ops on one SimMemoryManager) x a set of single faults (op i, k-th allocation).
// Every (scenario, fault) executes in a forked child of the pre-initialised worker.
#include "glue.hpp"
#include "gen.hpp"
#include <sys/wait.h>
#include <sys/mman.h>
#include <unistd.h>
#include <signal.h>
#include <algorithm>
#include <functional>
#include <xalanc/XPath/Function.hpp>
#include <xalanc/XPath/XObjectFactory.hpp>
#include <xercesc/util/XMLUni.hpp>

using namespace sim;
using namespace xalanc;

namespace {

// an external function to install (installing it again under the same name replaces the installed clone)
class FunctionSq19 : public Function {
public:
    XObjectPtr execute(XPathExecutionContext& ctx, XalanNode* context, const XObjectArgVectorType& args, const Locator* locator) const override {
        if (args.size() != 1) generalError(ctx, context, locator);
        double v = args[0]->num(ctx); return ctx.getXObjectFactory().createNumber(v * v);
    }
    using Function::execute;
    FunctionSq19* clone(MemoryManager& m) const override { return XalanCopyConstruct(m, *this); }
protected:
    const XalanDOMString& getError(XalanDOMString& r) const override { r.assign("ext:sq() takes one argument"); return r; }
};

struct OpOut { uint64_t allocs = 0; int status = 0; bool threw = false; std::string exc; uint64_t outHash = 0; size_t outLen = 0; bool errEmpty = false; bool ran = false; std::string out; };

struct Scenario {
    const Json& plan;
    SimMemoryManager mm;
    SimFS fs;
    XalanTransformer* T = nullptr;
    SimResolver* resolver = nullptr;
    std::vector<const XalanCompiledStylesheet*> sheets;
    std::vector<const XalanParsedSource*> sources;
    explicit Scenario(const Json& p) : plan(p) {
        const Json& res = p.at("resources");
        for (auto& kv : res.o) fs.put(kv.first, kv.second.s);
    }
    const std::string& docText(size_t i) const { const Json& d = plan.at("docs"); return d.a[i % d.a.size()].s; }
    const std::string& sheetText(size_t i) const { const Json& d = plan.at("sheets"); return d.a[i % d.a.size()].s; }

    void newT() { if (T) return; T = new XalanTransformer(mm); resolver = new SimResolver(fs); T->setEntityResolver(resolver); }
    void delT() { if (!T) return; XalanTransformer* t = T; T = nullptr; sheets.clear(); sources.clear(); delete t; delete resolver; resolver = nullptr; }

    void doOp(const Json& op, OpOut& o) {
        std::string k = op.str("op");
        if (k == "new") { newT(); return; }
        if (k == "delete") { delT(); return; }
        if (!T) newT();
        if (k == "compile") {
            SimIStream is(sheetText(op.num("sheet")), SrcFault());
            XSLTInputSource in(&is, mm); in.setSystemId(XalanDOMString((std::string(SIM_BASE) + "ss.xsl").c_str(), mm).c_str());
            const XalanCompiledStylesheet* cs = nullptr;
            o.status = T->compileStylesheet(in, cs);
            if (o.status == 0 && cs) sheets.push_back(cs);
        } else if (k == "parse") {
            SimIStream is(docText(op.num("doc")), SrcFault());
            XSLTInputSource in(&is, mm); in.setSystemId(XalanDOMString((std::string(SIM_BASE) + "doc.xml").c_str(), mm).c_str());
            const XalanParsedSource* ps = nullptr;
            o.status = T->parseSource(in, ps, op.boolean("xerces"));
            if (o.status == 0 && ps) sources.push_back(ps);
        } else if (k == "transform") {
            SimSink sink;
            std::string sf = op.str("src", "stream"), ssf = op.str("ss", "stream"), tf = op.str("target", "callback");
            SimIStream dis(docText(op.num("doc")), SrcFault()), sis(sheetText(op.num("sheet")), SrcFault());
            XSLTInputSource din(&dis, mm), sin(&sis, mm);
            din.setSystemId(XalanDOMString((std::string(SIM_BASE) + "doc.xml").c_str(), mm).c_str());
            sin.setSystemId(XalanDOMString((std::string(SIM_BASE) + "ss.xsl").c_str(), mm).c_str());
            bool parsed = sf == "parsed" && !sources.empty(), compiled = ssf == "compiled" && !sheets.empty();
            const XalanParsedSource* ps = parsed ? sources[op.num("psi") % sources.size()] : nullptr;
            const XalanCompiledStylesheet* cs = compiled ? sheets[op.num("csi") % sheets.size()] : nullptr;
            if (ssf == "pi") {
                // the stylesheet comes from the xml-stylesheet processing instruction of the source document (resolved through the entity resolver)
                std::string doc = docText(op.num("doc")); size_t q = doc.find("?>"); if (q != std::string::npos) doc.insert(q + 2, "\n<?xml-stylesheet type=\"text/xsl\" href=\"ss.xsl\"?>");
                fs.put("ss.xsl", sheetText(op.num("sheet")));
                SimIStream pis(doc, SrcFault()); XSLTInputSource pin(&pis, mm); pin.setSystemId(XalanDOMString((std::string(SIM_BASE) + "doc.xml").c_str(), mm).c_str());
                if (tf == "ostream") { SinkOStream os(sink); XSLTResultTarget rt(&os, mm); o.status = T->transform(pin, rt); }
                else o.status = T->transform(pin, &sink, sinkCallback, sinkFlushCallback);
            } else if (tf == "ostream") {
                SinkOStream os(sink); XSLTResultTarget rt(&os, mm);
                if (parsed && compiled) o.status = T->transform(*ps, cs, rt);
                else if (parsed) o.status = T->transform(*ps, sin, rt);
                else if (compiled) o.status = T->transform(din, cs, rt);
                else o.status = T->transform(din, sin, rt);
            } else {
                if (parsed && compiled) o.status = T->transform(*ps, cs, &sink, sinkCallback, sinkFlushCallback);
                else if (parsed) { XSLTResultTarget dummy(mm); (void)dummy;
                    // no (parsed, stylesheet source, callback) overload: use the ostream-less generic one through a compiled-on-the-fly sheet
                    SinkOStream os(sink); XSLTResultTarget rt(&os, mm); o.status = T->transform(*ps, sin, rt); }
                else if (compiled) { SinkOStream os(sink); XSLTResultTarget rt(&os, mm); o.status = T->transform(din, cs, rt); }
                else o.status = T->transform(din, sin, &sink, sinkCallback, sinkFlushCallback);
            }
            o.outHash = fnvStr(sink.bytes); o.outLen = sink.bytes.size(); o.out = sink.bytes;
        } else if (k == "destroy-ss") {
            if (!sheets.empty()) { size_t i = op.num("i") % sheets.size(); o.status = T->destroyStylesheet(sheets[i]); sheets.erase(sheets.begin() + i); }
        } else if (k == "destroy-src") {
            if (!sources.empty()) { size_t i = op.num("i") % sources.size(); o.status = T->destroyParsedSource(sources[i]); sources.erase(sources.begin() + i); }
        } else if (k == "param") {
            T->setStylesheetParam(XalanDOMString("P1", mm), XalanDOMString("'pv'", mm));
            T->setStylesheetParam("P2", 17.0);
        } else if (k == "clear-params") {
            T->clearStylesheetParams();
        } else if (k == "install-fn") {
            T->installExternalFunction(XalanDOMString("urn:x-ext", mm), XalanDOMString("sq", mm), FunctionSq19());
        } else if (k == "uninstall-fn") {
            T->uninstallExternalFunction(XalanDOMString("urn:x-ext", mm), XalanDOMString("sq", mm));
        }
        if (o.status != 0 && T) { const char* e = T->getLastError(); o.errEmpty = !(e && *e); }
    }
};

SimMemoryManager* g_mm = nullptr;     // for the terminate handler in the child
std::vector<std::string> g_dryOutputs; // fault-free output of every op (filled by the worker from the dry run, inherited by forked children)
int g_resFd = -1;
std::string g_phase;

void childWrite(const std::string& s) { if (g_resFd >= 0) { ssize_t r = write(g_resFd, s.data(), s.size()); (void)r; } }

void childTerminate() {
    std::string sig = g_mm && g_mm->lastRefusedBtN ? responsibleFrames(g_mm->lastRefusedBt + 1, g_mm->lastRefusedBtN - 1, 2) : std::string("no-refused-allocation");
    std::string full = g_mm && g_mm->lastRefusedBtN ? xalanFrames(g_mm->lastRefusedBt + 1, g_mm->lastRefusedBtN - 1, 8) : std::string();
    // where are we now (the terminate site): the current backtrace
    void* bt[32]; int n = backtrace(bt, 32);
    std::string here = xalanFrames(bt, n, 4);
    childWrite("\nTERMINATE phase=" + g_phase + "\nREFUSED " + sig + "\nHERE " + here + " refused allocation stack: " + full + "\n");
    _exit(79);
}

// Process-level scenario: the two-phase global initialisation (XalanTransformer::initialize with rollback) and terminate()
// on the simulated manager.  The worker's own initialisation is undone first; ops: 0 xalan-init, 1 transform, 2 xalan-terminate.
void childInitScenario(const Json& plan, int faultOp, uint64_t faultK) {
    Json out = Json::object(); Json jops = Json::array();
    XalanTransformer::terminate(); xercesc::XMLPlatformUtils::Terminate();
    static SimMemoryManager mm; g_mm = &mm;      // static: Xerces keeps the pointer until Terminate()
    SimMemoryManager::recordSites() = faultOp < 0;
    xercesc::XMLPlatformUtils::Initialize(xercesc::XMLUni::fgXercescDefaultLocale, 0, 0, &mm);
    bool initialised = false; uint64_t allocs[3] = { 0, 0, 0 };
    auto rec = [&](int i, int status, bool threw, const std::string& exc, const std::string& outp) { Json j = Json::object(); j["allocs"] = (long long)allocs[i]; j["status"] = status; j["threw"] = threw; j["exc"] = exc; j["out"] = hex64(fnvStr(outp)); j["len"] = (long long)outp.size(); j["errEmpty"] = false; if (faultOp < 0) j["bytes"] = outp; jops.push(j); };
    auto attempt = [&](int i, std::function<void()> f) -> std::pair<bool, std::string> {
        g_phase = "op" + std::to_string(i); mm.beginOp(); if (i == faultOp) mm.setFault(faultK); else mm.clearFault();
        std::string exc; bool threw = false;
        try { f(); } catch (const xercesc::OutOfMemoryException&) { threw = true; exc = "OutOfMemoryException"; } catch (const XSLException&) { threw = true; exc = "XSLException"; } catch (const xercesc::XMLException&) { threw = true; exc = "XMLException"; } catch (...) { threw = true; exc = "unknown"; }
        allocs[i] = mm.opAllocs; mm.clearFault(); return std::make_pair(threw, exc);
    };
    { auto r = attempt(0, [&]() { XalanTransformer::initialize(mm); }); initialised = !r.first; rec(0, 0, r.first, r.second, ""); }
    if (!initialised) {   // rollback must have left things so that a second initialisation works
        g_phase = "re-initialize"; try { XalanTransformer::initialize(mm); initialised = true; } catch (...) { out["reinitFailed"] = true; }
    }
    std::string outBytes; int st = -99;
    if (initialised) {
        auto r = attempt(1, [&]() { XalanTransformer t(mm); SimSink sink; SimIStream dis(plan.str("good_doc"), SrcFault()), sis(plan.str("good_ss"), SrcFault()); XSLTInputSource din(&dis, mm), sin(&sis, mm); st = t.transform(din, sin, &sink, sinkCallback, sinkFlushCallback); outBytes = sink.bytes; });
        rec(1, st, r.first, r.second, outBytes);
        auto r2 = attempt(2, [&]() { XalanTransformer::terminate(); }); rec(2, 0, r2.first, r2.second, "");
    } else { rec(1, -99, true, "not-initialised", ""); rec(2, 0, false, "", ""); }
    out["ops"] = jops; out["dtorAllocs"] = 0;
    // recovery: the whole cycle again, fault-free
    g_phase = "recovery"; std::string recOut; int recSt = -99; bool recThrew = false;
    try { XalanTransformer::initialize(mm); { XalanTransformer t(mm); SimSink sink; SimIStream dis(plan.str("good_doc"), SrcFault()), sis(plan.str("good_ss"), SrcFault()); XSLTInputSource din(&dis, mm), sin(&sis, mm); recSt = t.transform(din, sin, &sink, sinkCallback, sinkFlushCallback); recOut = sink.bytes; } XalanTransformer::terminate(); } catch (...) { recThrew = true; }
    out["recStatus"] = recSt; out["recThrew"] = recThrew; out["recOut"] = hex64(fnvStr(recOut)); out["recLen"] = (long long)recOut.size(); out["recLeak"] = 0;
    out["refused"] = (long long)mm.refused; if (mm.refused) { out["refusedSite"] = responsibleFrames(mm.lastRefusedBt + 1, mm.lastRefusedBtN - 1, 2); out["refusedStack"] = xalanFrames(mm.lastRefusedBt + 1, mm.lastRefusedBtN - 1, 8); }
    g_phase = "xerces-terminate"; xercesc::XMLPlatformUtils::Terminate();
    out["liveAfterDelete"] = (long long)mm.liveBlocks; out["liveBytesAfterDelete"] = (long long)mm.liveBytes;
    if (faultOp < 0 && mm.liveBlocks) { auto sites = mm.liveSites(1); if (!sites.empty()) { out["leakSite"] = responsibleFrames(sites[0].data(), (int)sites[0].size(), 2); out["leakStack"] = xalanFrames(sites[0].data(), (int)sites[0].size(), 8); } }
    out["foreign"] = (long long)mm.foreignFrees; out["double"] = (long long)mm.doubleFrees; out["foreign2"] = (long long)mm.foreignFrees; out["double2"] = (long long)mm.doubleFrees; out["badfree"] = mm.firstBadFree;
    out["discarded"] = 0;
    g_phase = "exit";
    auto ub = ubsanTake(); if (!ub.empty()) { Json l = Json::array(); for (auto& u : ub) l.push(u); out["ubsan"] = l; }
    childWrite("RESULT " + out.dump() + "\n");
    _exit(0);
}

// Runs in the forked child.  faultOp < 0: dry run.
void childMain(const Json& plan, int faultOp, uint64_t faultK, int resFd) {
    g_resFd = resFd;
    std::set_terminate(childTerminate);
    if (plan.str("kind") == "init") childInitScenario(plan, faultOp, faultK);
    Json out = Json::object();
    {
        SimMemoryManager::recordSites() = faultOp < 0;     // the dry run keeps allocation sites so that a fault-free imbalance can name who allocated the block
        Scenario sc(plan); g_mm = &sc.mm;
        const Json& ops = plan.at("ops");
        Json jops = Json::array();
        for (size_t i = 0; i < ops.a.size(); ++i) {
            OpOut o; o.ran = true;
            g_phase = "op" + std::to_string(i) + ":" + ops.a[i].str("op");
            sc.mm.beginOp();
            if ((int)i == faultOp) sc.mm.setFault(faultK); else sc.mm.clearFault();
            try { sc.doOp(ops.a[i], o); }
            catch (const xercesc::OutOfMemoryException&) { o.threw = true; o.exc = "OutOfMemoryException"; }
            catch (const XSLException&) { o.threw = true; o.exc = "XSLException"; }
            catch (const xercesc::XMLException&) { o.threw = true; o.exc = "XMLException"; }
            catch (const xercesc::SAXException&) { o.threw = true; o.exc = "SAXException"; }
            catch (const std::exception& e) { o.threw = true; o.exc = std::string("std:") + e.what(); }
            catch (...) { o.threw = true; o.exc = "unknown"; }
            o.allocs = sc.mm.opAllocs;
            sc.mm.clearFault();
            Json j = Json::object(); j["allocs"] = (long long)o.allocs; j["status"] = o.status; j["threw"] = o.threw; j["exc"] = o.exc; j["out"] = hex64(o.outHash); j["len"] = (long long)o.outLen; j["errEmpty"] = o.errEmpty;
            if (faultOp < 0) j["bytes"] = o.out;      // dry run: the worker keeps the outputs
            else if ((int)i == faultOp && !o.threw && o.status == 0 && i < g_dryOutputs.size() && o.out != g_dryOutputs[i]) { std::string d; j["diffFeature"] = firstObsDiff(g_dryOutputs[i], o.out, &d); j["diffDetail"] = d; }
            if ((int)i == faultOp && sc.mm.refused > 0) { jops.push(j); break; }   // the documented recovery is to discard this transformer: nothing more is asked of it except its destructor
            jops.push(j);
        }
        out["ops"] = jops;
        g_phase = "final-delete";
        sc.mm.beginOp();
        if (faultOp == (int)ops.a.size()) sc.mm.setFault(faultK);     // fault inside the destructor
        try { sc.delT(); } catch (...) { out["dtorThrew"] = true; }
        out["dtorAllocs"] = (long long)sc.mm.opAllocs;
        sc.mm.clearFault();
        out["refused"] = (long long)sc.mm.refused;
        out["liveAfterDelete"] = (long long)sc.mm.liveBlocks;
        out["liveBytesAfterDelete"] = (long long)sc.mm.liveBytes;
        if (faultOp < 0 && sc.mm.liveBlocks) { auto sites = sc.mm.liveSites(1); if (!sites.empty()) { out["leakSite"] = responsibleFrames(sites[0].data(), (int)sites[0].size(), 2); out["leakStack"] = xalanFrames(sites[0].data(), (int)sites[0].size(), 8); } }
        out["foreign"] = (long long)sc.mm.foreignFrees; out["double"] = (long long)sc.mm.doubleFrees; out["badfree"] = sc.mm.firstBadFree;
        if (sc.mm.refused) { out["refusedSite"] = responsibleFrames(sc.mm.lastRefusedBt + 1, sc.mm.lastRefusedBtN - 1, 2); out["refusedStack"] = xalanFrames(sc.mm.lastRefusedBt + 1, sc.mm.lastRefusedBtN - 1, 8); }
        // ---- recovery: a new transformer on the same manager must work and be balanced
        g_phase = "recovery";
        uint64_t liveBefore = sc.mm.liveBlocks;
        {
            SimSink sink; int st = -1; bool threw = false;
            try {
                XalanTransformer t2(sc.mm); SimResolver r2(sc.fs); t2.setEntityResolver(&r2);
                SimIStream dis(plan.str("good_doc"), SrcFault()), sis(plan.str("good_ss"), SrcFault());
                XSLTInputSource din(&dis, sc.mm), sin(&sis, sc.mm);
                st = t2.transform(din, sin, &sink, sinkCallback, sinkFlushCallback);
            } catch (...) { threw = true; }
            out["recStatus"] = st; out["recThrew"] = threw; out["recOut"] = hex64(fnvStr(sink.bytes)); out["recLen"] = (long long)sink.bytes.size();
            out["recLeak"] = (long long)(sc.mm.liveBlocks - liveBefore);
        }
        out["foreign2"] = (long long)sc.mm.foreignFrees; out["double2"] = (long long)sc.mm.doubleFrees;
        g_phase = "discard";
        out["discarded"] = (long long)sc.mm.discardAll();
    }
    g_phase = "exit";
    auto ub = ubsanTake();
    if (!ub.empty()) { Json l = Json::array(); for (auto& s : ub) l.push(s); out["ubsan"] = l; }
    childWrite("RESULT " + out.dump() + "\n");
    _exit(0);
}

struct ChildRes { int exitCode = 0; int sig = 0; Json res; bool haveRes = false; std::string raw, err; };

ChildRes runChild(const Json& plan, int faultOp, uint64_t faultK) {
    ChildRes r;
    int rfd = memfd_create("c19res", 0), efd = memfd_create("c19err", 0);
    fflush(stdout); fflush(stderr);
    pid_t pid = fork();
    if (pid == 0) {
        dup2(efd, 2);
        alarm(60);
        childMain(plan, faultOp, faultK, rfd);
        _exit(0);
    }
    int st = 0; waitpid(pid, &st, 0);
    auto slurp = [](int fd) { std::string s; lseek(fd, 0, SEEK_SET); char b[8192]; ssize_t n; while ((n = read(fd, b, sizeof b)) > 0) s.append(b, n); close(fd); return s; };
    r.raw = slurp(rfd); r.err = slurp(efd);
    if (WIFEXITED(st)) r.exitCode = WEXITSTATUS(st); else if (WIFSIGNALED(st)) r.sig = WTERMSIG(st);
    size_t p = r.raw.rfind("RESULT ");
    if (p != std::string::npos) { try { r.res = Json::parse(r.raw.substr(p + 7)); r.haveRes = true; } catch (...) {} }
    return r;
}

std::string lineAfter(const std::string& s, const char* key) { size_t p = s.find(key); if (p == std::string::npos) return ""; p += strlen(key); size_t e = s.find('\n', p); return s.substr(p, e == std::string::npos ? std::string::npos : e - p); }

// signature from an ASan report: kind + first frames in xalanc code
std::string asanSig(const std::string& err, std::string* kind) {
    size_t p = err.find("ERROR: AddressSanitizer: "); std::string k = "unknown";
    if (p != std::string::npos) { size_t e = err.find_first_of(" \n", p + 25); k = err.substr(p + 25, e - (p + 25)); }
    if (kind) *kind = k;
    std::string frames; int got = 0; size_t q = p == std::string::npos ? 0 : p;
    while (got < 3 && (q = err.find(" in ", q)) != std::string::npos) {
        size_t e = err.find('\n', q); std::string ln = err.substr(q + 4, e - (q + 4)); q = e == std::string::npos ? err.size() : e;
        if (ln.find("xalanc") == std::string::npos && ln.find("/src/xalanc/") == std::string::npos) { if (ln.find("SUMMARY") != std::string::npos) break; continue; }
        size_t sp = ln.rfind(' '); std::string fn = sp == std::string::npos ? ln : ln.substr(0, sp);
        fn = normSym(fn); if (got) frames += "<"; frames += fn; ++got;
        if (err.compare(q, 2, "\n\n") == 0) break;   // end of first stack
    }
    return k + ":" + (frames.empty() ? "no-xalan-frame" : frames);
}

struct C19 : public Driver {
    const char* property() const override { return "C19"; }
    void init() override { xalanInitOnce(); }

    Json makePlan(uint64_t verifSeed, uint64_t run, const std::string& tier) override {
        // several runs share one scenario: run = scenario * nchunks + chunk; each chunk executes every nchunks-th fault
        const uint64_t nchunks = tier == "thorough" ? 16 : 8;
        const uint64_t scenario = run / nchunks, chunk = run % nchunks;
        uint64_t seed = runSeed(verifSeed, "C19", scenario);
        Rng root(seed); Rng g = root.fork("gen"), gf = root.fork("faults");
        Json p = Json::object();
        p["property"] = "C19"; p["run"] = (long long)run; p["seed"] = hex64(seed); p["tier"] = tier; p["scenario"] = (long long)scenario;
        DocCfg dc; dc.maxNodes = (int)g.range(6, 30); dc.maxDepth = 4; dc.dtd = g.chance(1, 3); dc.ns = g.chance(2, 3); dc.exoticText = g.chance(1, 2);
        GenDoc d0 = genDoc(g, dc); GenDoc d1 = genDoc(g, dc);
        // features: avoid the ones that hit known non-C19 findings (bigfmt: stack overflow in number formatting)
        auto allowed = featuresExcept({ "bigfmt", "ns-axis", "doctype-node" });
        SSCfg sc; sc.on = pickFeatures(g, allowed, 2, 7); sc.dupExtPrefix = g.chance(1, 4); if (g.chance(1, 4)) sc.on.insert("manyrtf"); if (g.chance(1, 4)) sc.on.insert("deeprec"); sc.useImport = g.chance(1, 4); sc.useInclude = g.chance(1, 4); sc.docFn = g.chance(1, 4); sc.stripSpace = g.chance(1, 4);
        sc.encoding = g.chance(1, 4) ? "ISO-8859-1" : (g.chance(1, 5) ? "UTF-16" : "UTF-8"); sc.order = g.chance(1, 3) ? "rk" : "doc";
        sc.keyVariant = (int)g.below(3); if (g.chance(1, 5)) sc.on.insert("rtf-key"); if (g.chance(1, 5)) sc.on.insert("num-groupsep"); if (g.chance(1, 6)) sc.on.insert("sort-manylang"); if (g.chance(1, 6)) sc.on.insert("manydf"); if (g.chance(1, 5)) sc.on.insert("deep-rtf"); if (g.chance(1, 5)) sc.on.insert("many-nodesets"); { Rng ga = g.fork("attr-feat"); if (ga.chance(1, 4)) sc.on.insert("attr-expanded"); if (ga.chance(1, 5)) sc.on.insert("copy-ns-attr"); if (ga.chance(1, 5)) sc.on.insert("attr-replace"); }
        { unsigned m = (unsigned)g.below(12); if (m == 0) { sc.method = ""; sc.rootName = "html"; } else if (m == 1) sc.method = "html"; else if (m == 2) sc.method = "text"; else if (m == 3) { sc.method = ""; } }   // output method: xml mostly; html, text, and the switch to html after the first element
        GenSS s0 = genStylesheet(g, sc, d0);
        SSCfg sb = sc; static const std::vector<std::string> aborts = { "message", "key", "extfn", "encoding" };
        sb.abortPlace = (int)g.below(3); sb.abortKind = g.pick(aborts); sb.abortNode = d0.ids[g.below(d0.ids.size())]; sb.on = pickFeatures(g, allowed, 1, 4); if (g.chance(1, 3)) sb.on.insert("rtf-key"); if (g.chance(1, 4)) sb.on.insert("key");
        GenSS s1 = genStylesheet(g, sb, d0);
        Json docs = Json::array(); docs.push(d0.xml); docs.push(d1.xml);
        // a not-well-formed document and a syntactically broken stylesheet: ordinary failures
        docs.push(d0.xml.substr(0, d0.xml.size() * 2 / 3));
        Json sheets = Json::array(); sheets.push(s0.xsl); sheets.push(s1.xsl);
        { std::string bad = s0.xsl; size_t q = g.chance(1, 2) ? bad.find("select=\"") : bad.rfind("select=\""); if (q != std::string::npos) bad.insert(q + 8, "((["); sheets.push(bad); }      // the mistake comes early or late in the stylesheet
        // a stylesheet whose first child includes a file that is not there, or one that is not XML from its first byte: the compile fails inside the include
        { Rng gi = g.fork("bad-include"); const bool missing = gi.chance(1, 2);
          sheets.push(std::string("<?xml version=\"1.0\"?><xsl:stylesheet version=\"1.0\" xmlns:xsl=\"http://www.w3.org/1999/XSL/Transform\"><xsl:include href=\"") + (missing ? "nosuch-inc.xsl" : "badinc.xsl") + "\"/><xsl:template match=\"/\"><o/></xsl:template></xsl:stylesheet>"); }
        p["docs"] = docs; p["sheets"] = sheets;
        Json res = Json::object(); res["badinc.xsl"] = "<<< not xml"; for (auto& kv : s0.resources) res[kv.first] = kv.second; for (auto& kv : s1.resources) res[kv.first] = kv.second;
        p["resources"] = res;
        p["good_doc"] = "<?xml version=\"1.0\"?><r><i v=\"3\">x</i><i v=\"4\">y</i></r>";
        p["good_ss"] = "<?xml version=\"1.0\"?><xsl:stylesheet version=\"1.0\" xmlns:xsl=\"http://www.w3.org/1999/XSL/Transform\"><xsl:key name=\"k\" match=\"i\" use=\"@v\"/><xsl:template match=\"/\"><o s=\"{sum(//i/@v)}\"><xsl:for-each select=\"//i\"><xsl:sort select=\"@v\" order=\"descending\"/><xsl:number/>:<xsl:value-of select=\"key('k',@v)\"/>;</xsl:for-each></o></xsl:template></xsl:stylesheet>";
        // ops
        Json ops = Json::array();
        auto op = [&](const char* k) -> Json& { Json o = Json::object(); o["op"] = k; return ops.push(o); };
        op("new");
        int n = (int)g.range(2, 6);
        for (int i = 0; i < n; ++i) {
            unsigned r = (unsigned)g.below(12);
            if (r == 0) { Json& o = op("compile"); o["sheet"] = (int)g.below(3); if (g.fork("bad-include-op").chance(1, 3)) o["sheet"] = 3; }
            else if (r == 1) { Json& o = op("parse"); o["doc"] = (int)g.below(3); o["xerces"] = g.chance(1, 3); }
            else if (r <= 7) {
                Json& o = op("transform"); o["doc"] = (int)(g.chance(1, 6) ? 2 : g.below(2)); o["sheet"] = (int)(g.chance(1, 6) ? 2 : g.below(2)); if (g.fork("bad-include-tr").chance(1, 10)) o["sheet"] = 3;
                o["src"] = g.chance(1, 3) ? "parsed" : "stream"; o["ss"] = g.chance(1, 3) ? "compiled" : (g.chance(1, 5) ? "pi" : "stream"); o["target"] = g.chance(1, 3) ? "ostream" : "callback";
                o["psi"] = (int)g.below(4); o["csi"] = (int)g.below(4);
            }
            else if (r == 8) { Json& o = op("destroy-ss"); o["i"] = (int)g.below(4); }
            else if (r == 9) { Json& o = op("destroy-src"); o["i"] = (int)g.below(4); }
            else if (r == 10) { if (g.chance(1, 2)) op("param"); else { op("install-fn"); if (g.chance(2, 3)) op("install-fn"); if (g.chance(1, 3)) op("uninstall-fn"); } }
            else { op("delete"); op("new"); }
        }
        if (g.chance(1, 3)) op("delete");
        p["ops"] = ops;
        // The process-level initialise / terminate scenario is implemented (childInitScenario) but not part of the verdict: the
        // property speaks about the manager given to a XalanTransformer, not about XalanTransformer::initialize().  A probe run showed
        // that a failed initialize() is not restartable (see DESIGN.md 13.4); enable with VERIF_C19_INIT=1 to look at it.
        if (getenv("VERIF_C19_INIT") && scenario % 6 == 5) {
            p["kind"] = "init"; Json io = Json::array(); for (const char* k : { "xalan-init", "init-transform", "xalan-terminate" }) { Json o = Json::object(); o["op"] = k; io.push(o); } p["ops"] = io; ops = io;
        }
        // fault selection
        Json en = Json::object();
        if (tier == "thorough") en["mode"] = "all";
        else { en["mode"] = "sample"; en["full_op"] = (int)gf.below(ops.a.size()); en["pairs"] = 160; en["fseed"] = (long long)(gf.next() >> 1); }
        en["chunk"] = (long long)chunk; en["nchunks"] = (long long)nchunks;
        p["enumerate"] = en;
        return p;
    }

    void classify(const Json& plan, const Json& dry, int fi, uint64_t fk, const ChildRes& c, Result& res, std::map<std::string, int>& outcome) {
        Json sub = Json::object(); { Json e = Json::object(); e["mode"] = "list"; Json l = Json::array(); Json pr = Json::array(); pr.push(fi); pr.push((long long)fk); l.push(pr); e["list"] = l; sub["enumerate"] = e; }
        auto viol = [&](const std::string& cls, const std::string& sig, const std::string& detail) {
            res.violateSub(cls, sig, detail + " [op " + std::to_string(fi) + " k " + std::to_string(fk) + "]", sub);
        };
        const Json& ops = plan.at("ops");
        std::string opName = fi >= 0 && fi < (int)ops.a.size() ? ops.a[fi].str("op") : (fi < 0 ? "dry" : "final-delete");
        if (!c.haveRes) {
            if (c.exitCode == 79) { outcome["terminate"]++; viol("abnormal-termination", "terminate:" + lineAfter(c.raw, "REFUSED "), "std::terminate in " + lineAfter(c.raw, "phase=") + " at " + lineAfter(c.raw, "HERE ")); }
            else if (c.exitCode == 77) { outcome["asan"]++; std::string kind; std::string sig = asanSig(c.err, &kind); viol("sanitizer:asan", sig, "AddressSanitizer " + kind + " in child: " + c.err.substr(0, 2500)); }
            else if (c.sig == SIGALRM) { outcome["hang"]++; viol("hang", "alarm:" + opName, "child did not finish within 60 s"); }
            else { outcome["died"]++; viol("abnormal-termination", "died:exit" + std::to_string(c.exitCode) + "sig" + std::to_string(c.sig) + ":" + opName, "child died without result; stderr: " + c.err.substr(0, 300)); }
            return;
        }
        const Json& r = c.res;
        if (r.num("foreign2") > 0) { outcome["foreign-free"]++; viol("foreign-free", r.str("refusedSite"), "pointer not allocated by this manager was deallocated through it after refusing the allocation at " + r.str("refusedStack")); return; }
        if (r.num("double2") > 0) { outcome["double-free"]++; viol("double-free", r.str("refusedSite"), r.str("badfree") + " after refusing the allocation at " + r.str("refusedStack")); return; }
        if (r.has("ubsan")) { outcome["ubsan"]++; viol("sanitizer:ubsan", r.at("ubsan").a[0].s, "UBSan report in child"); return; }
        if (fi < 0) {   // dry run: balance
            if (r.num("liveAfterDelete") != 0) { outcome["unbalanced"]++; viol("unbalanced", "fault-free:" + r.str("leakSite", "unknown-site"), std::to_string(r.num("liveAfterDelete")) + " blocks (" + std::to_string(r.num("liveBytesAfterDelete")) + " bytes) still outstanding after the transformer's destructor in a fault-free run; first one allocated at " + r.str("leakStack")); }
            if (r.num("recLeak") != 0) { outcome["unbalanced"]++; viol("unbalanced", "fault-free-recovery", "recovery transformer left blocks outstanding"); }
            for (size_t i = 0; i < r.at("ops").a.size(); ++i) if (r.at("ops").a[i].boolean("errEmpty")) viol("empty-error", "op:" + ops.a[i].str("op"), "non-zero status with empty getLastError()");
            return;
        }
        bool fired = r.num("refused") > 0;
        if (!fired) { outcome["not-reached"]++; return; }
        // the faulted op
        if (fi < (int)r.at("ops").a.size()) {
            const Json& fo = r.at("ops").a[fi]; const Json& dop = dry.at("ops").a[fi];
            if (fo.boolean("threw")) outcome["exception:" + fo.str("exc")]++;
            else if (fo.num("status") != 0) { outcome["status"]++; if (fo.boolean("errEmpty")) viol("empty-error", "after-alloc-fail:" + opName, "non-zero status with empty error message"); }
            else {
                outcome["absorbed"]++;
                if (fo.str("out") != dop.str("out") && dop.num("status") == 0) viol("absorbed-wrong-output", fo.str("diffFeature", "unknown"), "call reported success after a refused allocation (at " + r.str("refusedStack") + ") but its output differs from the fault-free output: " + fo.str("diffDetail"));
            }
        } else outcome["in-destructor"]++;
        // recovery
        if (r.boolean("recThrew") || r.num("recStatus") != 0 || r.str("recOut") != dry.str("recOut")) { outcome["recovery-failed"]++; viol("recovery-failed", r.str("refusedSite"), "a new transformer on the same manager did not produce the expected output after the fault"); }
        else if (r.num("recLeak") != 0) { outcome["recovery-unbalanced"]++; viol("recovery-unbalanced", opName, "recovery transformer left blocks outstanding"); }
        if (r.num("liveAfterDelete") > 0) outcome["outstanding-after-fault(allowed)"]++;
    }

    bool isolateRuns() const override { return true; }
    void execute(const Json& plan, Result& res, Trace& tr) override {
        std::map<std::string, int> outcome;
        ChildRes dryc = runChild(plan, -1, 0);
        res.count("children");
        if (!dryc.haveRes) { Json none; classify(plan, none, -1, 0, dryc, res, outcome); tr.ev("dry-died"); for (auto& kv : outcome) res.count("outcome:" + kv.first, kv.second); return; }
        Json dry = dryc.res;
        g_dryOutputs.clear(); for (auto& o : dry["ops"].a) { g_dryOutputs.push_back(o.str("bytes")); Json slim = Json::object(); for (auto& kv : o.o) if (kv.first != "bytes") slim[kv.first] = kv.second; o = slim; }
        classify(plan, dry, -1, 0, dryc, res, outcome);
        std::vector<uint64_t> n; for (auto& o : dry.at("ops").a) n.push_back((uint64_t)o.num("allocs"));
        n.push_back((uint64_t)dry.num("dtorAllocs"));
        uint64_t total = 0; for (auto v : n) total += v;
        tr.ev("dry " + dry.dump());
        res.count("allocs_in_scenario", (int64_t)total);
        for (size_t i = 0; i < dry.at("ops").a.size(); ++i) { const Json& o = dry.at("ops").a[i]; res.tag("op:" + plan.at("ops").a[i].str("op") + (o.num("status") ? ":fails" : ":ok")); }
        // which faults
        std::vector<std::pair<int, uint64_t>> faults;
        const Json& en = plan.at("enumerate"); std::string mode = en.str("mode", "all");
        if (mode == "all") { for (size_t i = 0; i < n.size(); ++i) for (uint64_t k = 1; k <= n[i]; ++k) faults.emplace_back((int)i, k); res.count("exhaustive_chunks"); }
        else if (mode == "list") { for (auto& pr : en.at("list").a) faults.emplace_back((int)pr.a[0].i, (uint64_t)pr.a[1].i); }
        else {
            size_t fo = (size_t)en.num("full_op") % n.size();
            for (uint64_t k = 1; k <= n[fo]; ++k) faults.emplace_back((int)fo, k);
            // small operations (set a parameter, install a function, destroy a handle, the destructor of an idle transformer) are enumerated
            // completely: a uniform sample over the scenario's allocations would hardly ever land in them
            for (size_t i = 0; i < n.size(); ++i) if (i != fo && n[i] <= 48) for (uint64_t k = 1; k <= n[i]; ++k) faults.emplace_back((int)i, k);
            Rng gf((uint64_t)en.num("fseed")); int pairs = (int)en.num("pairs");
            for (int j = 0; j < pairs && total; ++j) { uint64_t x = gf.below(total); size_t i = 0; while (x >= n[i]) { x -= n[i]; ++i; } faults.emplace_back((int)i, x + 1); }
        }
        if (mode != "list" && en.num("nchunks", 1) > 1) {
            std::vector<std::pair<int, uint64_t>> mine; uint64_t nc = (uint64_t)en.num("nchunks"), c = (uint64_t)en.num("chunk");
            for (size_t j = 0; j < faults.size(); ++j) if (j % nc == c) mine.push_back(faults[j]);
            faults.swap(mine);
        }
        std::set<std::string> sites;
        for (auto& f : faults) {
            ChildRes c = runChild(plan, f.first, f.second);
            res.count("children"); res.count("faults_injected");
            size_t before = res.viols.size();
            classify(plan, dry, f.first, f.second, c, res, outcome);
            std::string oc = c.haveRes ? (c.res.num("refused") ? "ok" : "nr") : "dead";
            if (c.haveRes && c.res.has("refusedSite")) sites.insert(c.res.str("refusedSite"));
            tr.ev("f " + std::to_string(f.first) + "," + std::to_string(f.second) + " " + oc + " v" + std::to_string(res.viols.size() - before) + " " + (c.haveRes ? c.res.dump() : lineAfter(c.raw, "REFUSED ")));
        }
        for (auto& kv : outcome) res.count("outcome:" + kv.first, kv.second);
        res.count("distinct_refused_sites_sum", (int64_t)sites.size());
        Json js = Json::array(); for (auto& s : sites) js.push(s); res.extra["sites"] = js;
    }
};

} // namespace

int main(int argc, char** argv) { C19 d; return driverMain(argc, argv, d); }
