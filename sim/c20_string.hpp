// C20 — XalanDOMString against std::u16string.
#pragma once
#include "c20_common.hpp"

namespace c20 {

struct TmpStr {
    XalanDOMString s;
    TmpStr(const std::u16string& t, MemoryManager& m) : s(m) { if (!t.empty()) s.assign(t.data(), (XalanDOMString::size_type)t.size()); }
};
inline int sgn(int v) { return v < 0 ? -1 : v > 0 ? 1 : 0; }

struct StringRun {
    typedef XalanDOMString S; typedef std::u16string U; typedef XalanDOMString::size_type sz;
    Run& R; S* a; S* b; U ma, mb;

    explicit StringRun(Run& r) : R(r), a(0), b(0) {
        R.apiClass = "XalanDOMString";
        a = new S(R.mm); b = new S(R.mmB());
        const int cap = (int)(R.plan.at("knobs").num("cap", 0) & 15);
        if (cap) a->reserve((sz)cap);
        R.snapshot = [this] { Json o = Json::object(); o["op"] = "force_state"; o["a"] = jsonStr(ma); o["b"] = jsonStr(mb); return o; };
    }
    U read(const S& s, const char* which) {
        const sz n = s.length();
        if (n > (1u << 20)) { R.bad("size", std::string(which) + ".length() is " + std::to_string(n)); R.stop = true; return U(); }
        return U(s.c_str(), n);
    }
    void verify(S& s, const U& m, const char* which) {
        const S& cs = s; const std::string w = which; const size_t n = m.size();
        if (cs.size() != n || cs.length() != n) { R.inconsistent("size", w + ".size()"); R.stop = true; return; }
        if (cs.empty() != m.empty()) R.inconsistent("empty", w + ".empty() disagrees with length()");
        const XalanDOMChar* p = cs.c_str();
        if (!p || cs.data() != p) { R.inconsistent("c_str", w + ".c_str()/data()"); R.stop = true; return; }
        if (p[n] != 0) R.inconsistent("terminator", w + ".c_str()[length()] is not NUL");
        if (cs.capacity() < n) R.inconsistent("capacity", w + ".capacity() < length()");
        for (size_t i = 0; i < n; ++i) if (cs[(sz)i] != m[i] || s[(sz)i] != m[i]) { R.inconsistent("index", w + "[" + std::to_string(i) + "]"); break; }
        if ((size_t)(cs.end() - cs.begin()) != n || (size_t)(s.end() - s.begin()) != n) { R.inconsistent("iterators", w + ": end()-begin() is " + std::to_string(cs.end() - cs.begin()) + " with length " + std::to_string(n)); return; }
        if (!std::equal(cs.begin(), cs.end(), m.begin())) R.inconsistent("iteration", w + " forward iteration");
        U rv; for (S::const_reverse_iterator it = cs.rbegin(); it != cs.rend(); ++it) { rv += *it; if (rv.size() > n + 2) break; }
        if (rv != U(m.rbegin(), m.rend())) R.inconsistent("reverse-iteration", w + " backwards is " + show(rv) + ", forwards " + show(m));
    }
    std::string stateOf(const S& s, const U& m) const {
        std::string r = s.capacity() == 0 ? "no-buffer" : m.empty() ? "empty-with-buffer" : s.capacity() == m.size() ? "full" : "has-room";
        if (m.find(u'\0') != U::npos) r += "+embedded-nul";
        return r;
    }
    void settle(U& model, const std::vector<U>& ok, const U& S_, const char* which) {
        if (!R.fired) {
            if (S_ != ok.back()) R.mismatch(std::string(which) + " contents", "expected " + show(ok.back()) + " got " + show(S_) + " (before the operation: " + show(model) + ")");
        } else {
            size_t hit = ok.size(); for (size_t i = ok.size(); i-- > 0;) if (ok[i] == S_) { hit = i; break; }
            if (hit == ok.size()) { R.corrupt("state", std::string(which) + " is " + show(S_) + "; before " + show(model) + ", intended " + show(ok.back())); R.res.count("fault-state:unacceptable"); }
            else if (which[0] == 'A') R.res.count(std::string("fault-state:") + (hit + 1 == ok.size() ? (S_ == model ? "noop" : "full") : hit == 0 ? "none" : "prefix"));
        }
        if (S_ != model) R.opChanged = true;
        model = S_;
    }
    void after(const std::vector<U>& okA, const std::vector<U>* okB = 0) {
        { U s = read(*a, "A"); if (R.stop) return; settle(ma, okA, s, "A"); }
        { U s = read(*b, "B"); if (R.stop) return; std::vector<U> ob; if (okB) ob = *okB; else ob.push_back(mb); settle(mb, ob, s, "B"); }
        verify(*a, ma, "A"); if (!R.stop) verify(*b, mb, "B");
        R.finishOp(ma.size(), hashStr(ma) ^ (hashStr(mb) * 31));
    }
    void skip() { R.res.count("skipped-ops"); R.tr.ev("skip " + R.kind); }
    static std::vector<U> two(const U& pre, const U& post) { std::vector<U> v; v.push_back(pre); v.push_back(post); return v; }
    static std::vector<U> three(const U& pre, const U& post) { std::vector<U> v; v.push_back(pre); v.push_back(U()); v.push_back(post); return v; }

    U text() const {
        U r; for (int c : R.vals("s")) r += (char16_t)(c ? c : 'a');
        switch (R.arg("rel")) {
        case 1: r = ma; break;
        case 2: r = ma.substr(0, R.uarg("m") % (ma.size() + 1)); break;
        case 3: r = ma; if (!r.empty()) r[R.uarg("m") % r.size()] ^= 1; break;
        case 4: r = ma + r; break;
        default: break;
        }
        for (auto& c : r) if (c == 0) c = u'n';
        return r;
    }
    std::string narrow() const { std::string r; for (int c : R.vals("s")) r += (char)('a' + (c % 26)); return r; }
    static U widen(const std::string& s) { U r; for (char c : s) r += (char16_t)(unsigned char)c; return r; }
    char16_t ch() const { unsigned c = R.uarg("c") & 0xffff; return (char16_t)(c ? c : 'c'); }

    void step() {
        const std::string o = R.op->str("op"); R.kind = o; R.stateClass = stateOf(*a, ma);
        const size_t n = ma.size(); const size_t cap0 = a->capacity();
        const U pre = ma; U post = ma;
        const size_t pos = R.uarg("i") % (n + 1);                                  // 0..n
        const size_t cnt = std::min<size_t>(R.uarg("n") % 10, n - pos);            // pos+cnt <= n
        const bool nul = ma.find(u'\0') != U::npos;

        if (o == "force_state") {
            U wa, wb; for (int c : R.vals("a")) wa += (char16_t)c; for (int c : R.vals("b")) wb += (char16_t)c;
            a->assign(wa.c_str(), (sz)wa.size()); b->assign(wb.c_str(), (sz)wb.size());
            std::vector<U> okB = two(mb, wb); after(two(pre, wa), &okB);
        }
        // ------------------------------------------------------------------ assignment
        else if (o == "assign_str") { const U t = text(); TmpStr x(t, R.mm); post = t; if (R.arg("via")) R.call([&] { *a = x.s; }); else R.call([&] { a->assign(x.s); }); after(three(pre, post)); }
        else if (o == "assign_ptr") { const U t = text(); TmpStr x(t, R.mm); post = t; if (R.arg("via")) R.call([&] { *a = x.s.c_str(); }); else R.call([&] { a->assign(x.s.c_str()); }); after(three(pre, post)); }
        else if (o == "assign_ptr_n") { const U t = text(); const size_t c = R.uarg("n") % (t.size() + 1); post = t.substr(0, c); R.call([&] { a->assign(t.c_str(), (sz)c); }); after(three(pre, post)); }
        else if (o == "assign_sub") {
            const U t = text(); if (t.empty()) return skip(); TmpStr x(t, R.mm);
            const size_t p = R.uarg("i") % t.size(), c = std::min<size_t>(R.uarg("n") % 10, t.size() - p); post = t.substr(p, c);
            R.call([&] { a->assign(x.s, (sz)p, (sz)c); }); after(three(pre, post));
        }
        else if (o == "assign_self_sub") {
            if (!n) return skip(); const size_t p = R.uarg("i") % n, c = std::min<size_t>(R.uarg("n") % 10, n - p); post = pre.substr(p, c);
            R.kind = p == 0 ? (c == n ? "assign_self_sub-whole" : "assign_self_sub-truncate") : "assign_self_sub-move";
            R.call([&] { a->assign(*a, (sz)p, (sz)c); }); after(two(pre, post));
        }
        else if (o == "assign_self") { R.call([&] { S& alias = *a; if (R.arg("via")) *a = alias; else a->assign(alias); }); after(two(pre, post)); }
        else if (o == "assign_fill") { const size_t c = R.uarg("n") % 10; post.assign(c, ch()); R.call([&] { a->assign((sz)c, ch()); }); after(three(pre, post)); }
        else if (o == "assign_char") { post.assign(1, ch()); R.call([&] { *a = ch(); }); after(three(pre, post)); }
        else if (o == "assign_iter") { const U t = text(); TmpStr x(t, R.mm); post = t; R.call([&] { a->assign(x.s.begin(), x.s.end()); }); after(three(pre, post)); }
        else if (o == "assign_iter_self") { post = pre.substr(pos, cnt); R.call([&] { a->assign(a->begin() + pos, a->begin() + pos + cnt); }); after(three(pre, post)); }
        else if (o == "assign_narrow") { const std::string t = narrow(); post = widen(t); if (R.arg("via")) R.call([&] { *a = t.c_str(); }); else R.call([&] { a->assign(t.c_str()); }); after(three(pre, post)); }
        else if (o == "assign_narrow_n") { const std::string t = narrow(); const size_t c = R.uarg("n") % (t.size() + 1); post = widen(t.substr(0, c)); R.call([&] { a->assign(t.c_str(), (sz)c); }); after(three(pre, post)); }
        // ------------------------------------------------------------------ append
        else if (o == "append_str") { const U t = text(); TmpStr x(t, R.mm); post += t; if (R.arg("via")) R.call([&] { *a += x.s; }); else R.call([&] { a->append(x.s); }); after(two(pre, post)); }
        else if (o == "append_ptr") { const U t = text(); TmpStr x(t, R.mm); post += t; if (R.arg("via")) R.call([&] { *a += x.s.c_str(); }); else R.call([&] { a->append(x.s.c_str()); }); after(two(pre, post)); }
        else if (o == "append_ptr_n") { const U t = text(); const size_t c = R.uarg("n") % (t.size() + 1); post += t.substr(0, c); R.call([&] { a->append(t.c_str(), (sz)c); }); after(two(pre, post)); }
        else if (o == "append_sub" || o == "append_sub_npos") {
            const U t = text(); if (t.empty()) return skip(); TmpStr x(t, R.mm);
            const size_t p = R.uarg("i") % t.size(), c = std::min<size_t>(R.uarg("n") % 10, t.size() - p); const bool np = o == "append_sub_npos";
            post += np ? t.substr(p) : t.substr(p, c);
            R.call([&] { a->append(x.s, (sz)p, np ? S::npos : (sz)c); }); after(two(pre, post));
        }
        else if (o == "append_self") { if (n > 256) return skip(); post += pre; R.call([&] { S& alias = *a; if (R.arg("via")) *a += alias; else a->append(alias); }); after(two(pre, post)); }
        else if (o == "append_fill") { const size_t c = R.uarg("n") % 10; post.append(c, ch()); R.call([&] { a->append((sz)c, ch()); }); after(two(pre, post)); }
        else if (o == "push_back") { post.push_back(ch()); if (R.arg("via")) R.call([&] { *a += ch(); }); else R.call([&] { a->push_back(ch()); }); after(two(pre, post)); }
        else if (o == "append_narrow") { const std::string t = narrow(); post += widen(t); R.call([&] { a->append(t.c_str()); }); after(two(pre, post)); }
        else if (o == "append_narrow_n") { const std::string t = narrow(); const size_t c = R.uarg("n") % (t.size() + 1); post += widen(t.substr(0, c)); R.call([&] { a->append(t.c_str(), (sz)c); }); after(two(pre, post)); }
        // ------------------------------------------------------------------ insert
        else if (o == "insert_str") { const U t = text(); TmpStr x(t, R.mm); post.insert(pos, t); R.call([&] { a->insert((sz)pos, x.s); }); after(two(pre, post)); }
        else if (o == "insert_ptr") { const U t = text(); TmpStr x(t, R.mm); post.insert(pos, t); R.call([&] { a->insert((sz)pos, x.s.c_str()); }); after(two(pre, post)); }
        else if (o == "insert_ptr_n") { const U t = text(); const size_t c = R.uarg("m") % (t.size() + 1); post.insert(pos, t, 0, c); R.call([&] { a->insert((sz)pos, t.c_str(), (sz)c); }); after(two(pre, post)); }
        else if (o == "insert_sub") {
            const U t = text(); TmpStr x(t, R.mm); const size_t p2 = R.uarg("j") % (t.size() + 1), c2 = std::min<size_t>(R.uarg("m") % 10, t.size() - p2);
            post.insert(pos, t, p2, c2); R.call([&] { a->insert((sz)pos, x.s, (sz)p2, (sz)c2); }); after(two(pre, post));
        }
        // characters of the string itself given by pointer (std::basic_string allows the source to lie inside the string)
        else if (o == "insert_self_ptr") { if (!n || n > 256) return skip(); const size_t p2 = R.uarg("j") % n, c2 = std::min<size_t>(R.uarg("m") % 10, n - p2); post.insert(pos, pre, p2, c2);
            R.kind = a->capacity() >= n + c2 ? "insert_self_ptr-in-capacity" : "insert_self_ptr-reallocating";
            R.call([&] { a->insert((sz)pos, a->c_str() + p2, (sz)c2); }); after(two(pre, post)); }
        else if (o == "append_self_ptr") { if (!n || n > 256) return skip(); const size_t p2 = R.uarg("j") % n, c2 = std::min<size_t>(R.uarg("m") % 10, n - p2); post.append(pre, p2, c2);
            R.kind = a->capacity() >= n + c2 ? "append_self_ptr-in-capacity" : "append_self_ptr-reallocating";
            R.call([&] { a->append(a->c_str() + p2, (sz)c2); }); after(two(pre, post)); }
        else if (o == "assign_self_ptr") { if (!n) return skip(); const size_t p2 = R.uarg("j") % n, c2 = std::min<size_t>(R.uarg("m") % 10, n - p2); post = pre.substr(p2, c2);
            R.call([&] { a->assign(a->c_str() + p2, (sz)c2); }); after(two(pre, post)); }
        else if (o == "insert_self") { if (n > 256) return skip(); post.insert(pos, pre); R.call([&] { S& alias = *a; a->insert((sz)pos, alias); }); after(two(pre, post)); }
        else if (o == "insert_fill") { const size_t c = R.uarg("m") % 8; post.insert(pos, c, ch()); R.call([&] { a->insert((sz)pos, (sz)c, ch()); }); after(three(pre, post)); }
        else if (o == "insert_it_char") {
            post.insert(post.begin() + pos, ch()); S::iterator r = 0;
            R.call([&] { r = a->insert(a->begin() + pos, ch()); });
            if (!R.threw && ((size_t)(r - a->begin()) != pos || *r != ch())) R.bad("returned-iterator", "insert(iterator, char) returned index " + std::to_string(r - a->begin()) + ", expected " + std::to_string(pos));
            after(three(pre, post));
        }
        else if (o == "insert_it_fill") { const size_t c = R.uarg("m") % 8; post.insert(pos, c, ch()); R.call([&] { a->insert(a->begin() + pos, (sz)c, ch()); }); after(three(pre, post)); }
        else if (o == "insert_it_range") { const U t = text(); TmpStr x(t, R.mm); post.insert(pos, t); R.call([&] { a->insert(a->begin() + pos, x.s.begin(), x.s.end()); }); after(three(pre, post)); }
        // ------------------------------------------------------------------ erase / size
        else if (o == "erase") { post.erase(pos, cnt); R.kind = cnt == 0 ? "erase-nothing" : (pos == 0 && cnt == n) ? "erase-everything" : pos + cnt == n ? "erase-tail" : "erase-mid"; R.call([&] { a->erase((sz)pos, (sz)cnt); }); after(two(pre, post)); }
        else if (o == "erase_over") { const size_t over = cnt + 1 + R.uarg("n") % 7; post.erase(pos, over); R.call([&] { a->erase((sz)pos, (sz)over); }); after(two(pre, post)); }      // a count that reaches past the end is clamped, as in std::basic_string
        else if (o == "erase_npos") { post.erase(pos); R.call([&] { a->erase((sz)pos, S::npos); }); after(two(pre, post)); }
        else if (o == "erase_all") { post.clear(); R.call([&] { a->erase(); }); after(two(pre, post)); }
        else if (o == "erase_it") {
            if (!n) return skip(); const size_t p = R.uarg("i") % n; post.erase(p, 1); S::iterator r = 0;
            R.call([&] { r = a->erase(a->begin() + p); });
            if (!R.threw && (size_t)(r - a->begin()) != p) R.bad("returned-iterator", "erase(iterator) returned index " + std::to_string(r - a->begin()));
            after(two(pre, post));
        }
        else if (o == "erase_it_range") {
            post.erase(pos, cnt); S::iterator r = 0; R.kind = cnt ? "erase_it_range" : "erase_it_range-empty-range";
            R.call([&] { r = a->erase(a->begin() + pos, a->begin() + pos + cnt); });
            if (!R.threw && (size_t)(r - a->begin()) != pos) R.bad("returned-iterator", "erase(iterator, iterator) returned index " + std::to_string(r - a->begin()));
            after(two(pre, post));
        }
        else if (o == "clear") { post.clear(); R.call([&] { a->clear(); }); after(two(pre, post)); }
        else if (o == "resize") { const size_t want = R.uarg("n") % 14; post.resize(want, ch()); R.kind = want > n ? "resize-grow" : want < n ? "resize-shrink" : "resize-same"; R.call([&] { a->resize((sz)want, ch()); }); after(two(pre, post)); }
        else if (o == "resize_default") { const size_t want = R.uarg("n") % 14; post.resize(want); R.kind = want > n ? "resize_default-grow" : want < n ? "resize_default-shrink" : "resize_default-same"; R.call([&] { a->resize((sz)want); }); after(two(pre, post)); }
        else if (o == "reserve") {
            const size_t want = R.uarg("n") % 24; R.kind = want > cap0 ? "reserve-more" : "reserve-noop";
            R.call([&] { a->reserve((sz)want); });
            if (!R.threw && a->capacity() < want) R.bad("capacity", "capacity() " + std::to_string(a->capacity()) + " after reserve(" + std::to_string(want) + ")");
            after(two(pre, post));
        }
        else if (o == "swap") { std::vector<U> okB = two(mb, ma); post = mb; R.call([&] { a->swap(*b); }); after(two(pre, post), &okB); }
        else if (o == "assign_to_b") { std::vector<U> okB = three(mb, ma); R.call([&] { *b = *a; }); after(two(pre, post), &okB); }
        else if (o == "set_char") {
            if (!n) return skip(); const size_t p = R.uarg("i") % n; post[p] = ch();
            if (R.arg("via")) R.call([&] { *(a->begin() + p) = ch(); }); else R.call([&] { (*a)[(sz)p] = ch(); });
            after(two(pre, post));
        }
        // ------------------------------------------------------------------ construction (result goes to B)
        else if (o == "copy_ctor" || o == "clone" || o == "sub_ctor" || o == "sub_ctor_npos" || o == "ctor_fill" || o == "ctor_ptr" || o == "ctor_ptr_n" || o == "ctor_narrow") {
            S* c = 0; U want; bool viaClone = false;
            if (nul && (o == "copy_ctor" || o == "clone" || o == "sub_ctor" || o == "sub_ctor_npos")) R.kind += "-embedded-nul";
            if (o == "copy_ctor") { want = pre; R.call([&] { c = new S(*a, R.mm); }); }
            else if (o == "clone") { want = pre; viaClone = true; R.call([&] { c = a->clone(R.mm); }); }
            else if (o == "sub_ctor" || o == "sub_ctor_npos") {
                if (!n) { want = U(); R.kind += "-of-empty"; R.call([&] { c = new S(*a, R.mm, 0, S::npos); }); }
                else { const size_t p = R.uarg("i") % n, cc = std::min<size_t>(R.uarg("n") % 10, n - p); const bool np = o == "sub_ctor_npos"; want = np ? pre.substr(p) : pre.substr(p, cc); R.call([&] { c = new S(*a, R.mm, (sz)p, np ? S::npos : (sz)cc); }); }
            }
            else if (o == "ctor_fill") { const size_t cc = R.uarg("n") % 10; want.assign(cc, ch()); R.call([&] { c = new S((sz)cc, ch(), R.mm); }); }
            else if (o == "ctor_ptr") { const U t = text(); want = t; R.call([&] { c = new S(t.c_str(), R.mm); }); }
            else if (o == "ctor_ptr_n") { U t = text(); if (R.uarg("n") % 5 == 0) t.insert(t.begin(), u'\0'); if (t.empty()) return skip(); const size_t cc = 1 + R.uarg("n") % t.size(); want = t.substr(0, cc); /* with an explicit count the data may begin with a null character */ R.call([&] { c = new S(t.c_str(), R.mm, (sz)cc); }); }
            else { const std::string t = narrow(); want = widen(t); R.call([&] { c = new S(t.c_str(), R.mm); }); }
            std::vector<U> okB = two(mb, mb);
            if (c) {
                b->swap(*c); okB = two(mb, want);
                if (viaClone) { c->~XalanDOMString(); R.mm.deallocate(c); } else delete c;
            }
            after(two(pre, post), &okB);
        }
        // ------------------------------------------------------------------ substr
        else if (o == "substr" || o == "substr_npos") {
            if (!n) return skip(); const size_t p = R.uarg("i") % n, cc = std::min<size_t>(R.uarg("n") % 10, n - p); const bool np = o == "substr_npos";
            const U want = np ? pre.substr(p) : pre.substr(p, cc); std::vector<U> okB = three(mb, want);
            R.kind = np ? (p == 0 ? "substr_npos-from-0" : "substr_npos-from-middle") : "substr";
            if (np) R.call([&] { a->substr(*b, (sz)p); }); else R.call([&] { a->substr(*b, (sz)p, (sz)cc); });
            after(two(pre, post), &okB);
        }
        else if (o == "substr_self") {
            if (!n) return skip(); const size_t p = R.uarg("i") % n, cc = std::min<size_t>(R.uarg("n") % 10, n - p); post = pre.substr(p, cc);
            R.call([&] { a->substr(*a, (sz)p, (sz)cc); }); after(two(pre, post));
        }
        // ------------------------------------------------------------------ queries
        else if (o == "compare") {
            const U t = text(); TmpStr x(t, R.mm); int how = (int)(R.uarg("how") % 10);
            if (nul && how != 0 && how != 2 && how != 3 && how != 6 && how != 7 && how != 8 && how != 9) return skip();      // the pointer forms end at the first null character by definition
            const size_t p2 = R.uarg("j") % (t.size() + 1), c2 = std::min<size_t>(R.uarg("m") % 10, t.size() - p2);
            int got = 0, want = 0; static const char* names[] = { "compare-string", "compare-pointer", "compare-sub-string", "compare-sub-sub", "compare-sub-pointer-default-count", "compare-sub-pointer-count", "compare-sub-npos-string", "compare-sub-overlong-string", "compare-sub-sub-overlong", "compare-sub-sub-npos" };
            R.kind = names[how];
            switch (how) {
            case 0: want = ma.compare(t); R.call([&] { got = a->compare(x.s); }); break;
            case 1: want = ma.compare(t.c_str()); R.call([&] { got = a->compare(x.s.c_str()); }); break;
            case 2: want = ma.compare(pos, cnt, t); R.call([&] { got = a->compare((sz)pos, (sz)cnt, x.s); }); break;
            case 3: want = ma.compare(pos, cnt, t, p2, c2); R.call([&] { got = a->compare((sz)pos, (sz)cnt, x.s, (sz)p2, (sz)c2); }); break;
            case 4: want = ma.compare(pos, cnt, t.c_str()); R.call([&] { got = a->compare((sz)pos, (sz)cnt, x.s.c_str()); }); break;
            case 6: want = ma.compare(pos, U::npos, t); R.call([&] { got = a->compare((sz)pos, S::npos, x.s); }); break;
            case 7: want = ma.compare(pos, cnt + 3, t); R.call([&] { got = a->compare((sz)pos, (sz)(cnt + 3), x.s); }); break;
            case 8: want = ma.compare(pos, cnt, t, p2, c2 + 100); R.call([&] { got = a->compare((sz)pos, (sz)cnt, x.s, (sz)p2, (sz)(c2 + 100)); }); break;      /* the second count reaches past the end of the other string */
            case 9: want = ma.compare(pos, cnt, t, p2, U::npos); R.call([&] { got = a->compare((sz)pos, (sz)cnt, x.s, (sz)p2, S::npos); }); break;
            default: want = ma.compare(pos, cnt, t.c_str(), c2); R.call([&] { got = a->compare((sz)pos, (sz)cnt, x.s.c_str(), (sz)c2); }); break;
            }
            if (!R.threw && sgn(got) != sgn(want)) R.bad("compare-sign", std::string(names[how]) + " gives " + std::to_string(got) + ", std::u16string gives " + std::to_string(want) + " for " + show(ma) + " [" + std::to_string(pos) + "," + std::to_string(cnt) + "] vs " + show(t));
            after(two(pre, post));
        }
        else if (o == "equals") {
            if (nul) return skip(); const U t = text(); TmpStr x(t, R.mm); bool e1 = false, e2 = false, e3 = false, e4 = false, lt = false; size_t h1 = 0, h2 = 0, h3 = 0;
            R.call([&] {
                e1 = S::equals(*a, x.s); e2 = (*a == x.s); e3 = (*a == x.s.c_str()); e4 = !(*a != x.s);
                lt = xalanc::DOMStringLessThanFunction()(*a, x.s);
                h1 = a->hash(); h2 = x.s.hash(); h3 = S::hash(t.c_str(), (sz)t.size());
            });
            const bool want = ma == t;
            if (e1 != want || e2 != want || e3 != want || e4 != want) R.bad("equals", "equality with " + show(t));
            if (lt != (ma < t)) R.bad("less-than", "DOMStringLessThanFunction");
            if (want && h1 != h2) R.bad("hash", "equal strings hash differently");
            if (h2 != h3 || xalanc::DOMStringHashFunction()(x.s) != h2) R.bad("hash", "hash() and hash(pointer, length) differ");
            after(two(pre, post));
        }
        else if (o == "at") {
            const size_t i = R.uarg("i") % (n + 2); bool thr = false; XalanDOMChar got = 0; const S& ca = *a;
            R.kind = i < n ? "at-valid" : i == n ? "at-length" : "at-beyond";
            R.call([&] { try { got = ca.at((sz)i); got = a->at((sz)i); } catch (const std::out_of_range&) { thr = true; } });
            if (thr != (i >= n)) R.bad("at-throws", "at(" + std::to_string(i) + ") with length " + std::to_string(n) + (thr ? " threw" : " did not throw std::out_of_range"));
            else if (!thr && got != ma[i]) R.bad("at-value", "at(" + std::to_string(i) + ")");
            after(two(pre, post));
        }
        else if (o == "length_static") {
            sz got = 0; R.call([&] { got = S::length(a->c_str()); });
            const size_t want = nul ? ma.find(u'\0') : n;
            if (got != want) R.bad("length", "length(c_str()) is " + std::to_string(got));
            after(two(pre, post));
        }
        else if (o == "transcode") {
            bool ascii = !nul; for (char16_t c : ma) if (c >= 0x7f || c < 0x20) ascii = false;
            if (!ascii) return skip();
            xalanc::CharVectorType out(R.mm); R.call([&] { a->transcode(out); });
            if (!R.threw) {
                std::string got(out.begin(), out.end()), want; for (char16_t c : ma) want += (char)c; want += '\0';
                if (got != want) R.bad("transcode", "transcode() gives " + std::to_string(got.size()) + " bytes for a string of length " + std::to_string(n));
            }
            after(two(pre, post));
        }
        else { R.kind = "unknown-op"; return skip(); }
        if (a->capacity() != cap0) R.res.count("probe:string-realloc");
    }
    void finish() { R.phase = "destroy"; delete a; a = 0; delete b; b = 0; }
};

} // namespace c20
