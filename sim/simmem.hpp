// SimMemoryManager: the allocator seam.  Implements xercesc::MemoryManager.
#pragma once
#include <xercesc/framework/MemoryManager.hpp>
#include <xercesc/util/OutOfMemoryException.hpp>
#include <xercesc/util/PlatformUtils.hpp>
#include <unordered_map>
#include <vector>
#include <string>
#include <cstdlib>
#include <cstring>
#include <cstdint>
#include <execinfo.h>
#include <sys/mman.h>
#include <functional>

namespace sim {

struct SimMemoryManager : public xercesc::MemoryManager {
    struct Block { size_t size; uint64_t serial; bool live; void* bt[10]; int btn; };
    static bool& recordSites() { static bool v = false; return v; }   // --trace: keep the allocation backtrace of every block
    std::unordered_map<void*, Block> table;      // includes tombstones (live=false) until address is handed out again
    uint64_t serial = 0;          // allocations so far (all ops)
    uint64_t opAllocs = 0;        // allocations since beginOp()
    uint64_t failAt = 0;          // 1-based per-op ordinal to refuse; 0 = none
    bool     failSticky = false;  // refuse every allocation from failAt on (until cleared)
    uint64_t budget = 0;          // byte budget (0 = unlimited)
    uint64_t liveBytes = 0, peakBytes = 0, liveBlocks = 0;
    uint64_t refused = 0, foreignFrees = 0, doubleFrees = 0, frees = 0;
    std::string firstBadFree;     // description of the first foreign/double free
    bool reuse = false;           // LIFO address reuse inside size classes
    std::unordered_map<size_t, std::vector<void*>> freeLists;   // reuse mode
    void* lastRefusedBt[24]; int lastRefusedBtN = 0;            // backtrace of the refused allocation
    std::function<void(int)> yield;                              // scheduler hook (kind: 0 alloc, 1 free)
    const char* name = "mm";

    // ---- deterministic arena mode: every block comes from a private mapping at a fixed virtual address that depends only
    // on how many managers were created before in this run, so heap addresses inside the library (and therefore the
    // iteration order and probe counts of its pointer-keyed hash containers) are identical in every process.
    static bool& arenaMode() { static bool v = false; return v; }
    static int& arenaNext() { static int v = 0; return v; }
    static void arenaNewRun() { arenaNext() = 0; }
    static constexpr uintptr_t ARENA_BASE = 0x001000000000ULL;     // 64 GiB: inside ThreadSanitizer's low application range
    static constexpr size_t ARENA_SLOT = 1ULL << 31;               // 2 GiB of address space per manager (MAP_NORESERVE)
    char* aBase = nullptr; size_t aBump = 0; int aSlot = -1;
    SimMemoryManager() {
        if (arenaMode()) {
            aSlot = arenaNext()++;
            void* want = (void*)(ARENA_BASE + (uintptr_t)aSlot * ARENA_SLOT);
            void* p = mmap(want, ARENA_SLOT, PROT_READ | PROT_WRITE, MAP_PRIVATE | MAP_ANONYMOUS | MAP_NORESERVE | MAP_FIXED_NOREPLACE, -1, 0);
            if (p == want) { aBase = (char*)p; reuse = true; } else { if (p != MAP_FAILED) munmap(p, ARENA_SLOT); aSlot = -1; }
        }
    }
    void* arenaAlloc(size_t k) { if (aBump + k > ARENA_SLOT) return nullptr; void* p = aBase + aBump; aBump += k; return p; }

    void beginOp() { opAllocs = 0; }
    void setFault(uint64_t k, bool sticky = false) { failAt = k; failSticky = sticky; }
    void clearFault() { failAt = 0; failSticky = false; budget = 0; }

    static size_t klass(size_t n) { return (n + 15) & ~size_t(15); }

    void* allocate(XMLSize_t size) override {
        if (yield) yield(0);
        ++serial; ++opAllocs;
        bool refuse = false;
        if (failAt && (opAllocs == failAt || (failSticky && opAllocs > failAt))) refuse = true;
        if (budget && liveBytes + size > budget) refuse = true;
        if (refuse) {
            ++refused;
            lastRefusedBtN = backtrace(lastRefusedBt, 24);
            throw xercesc::OutOfMemoryException();
        }
        void* p = nullptr;
        size_t k = klass(size ? size : 1);
        if (reuse) {
            auto& fl = freeLists[k];
            if (!fl.empty()) { p = fl.back(); fl.pop_back(); }
        }
        if (!p && aBase) p = arenaAlloc(k);
        if (!p) p = std::malloc(reuse ? k : (size ? size : 1));
        if (!p) throw xercesc::OutOfMemoryException();
        { Block b; b.size = size; b.serial = serial; b.live = true; b.btn = 0; if (recordSites()) b.btn = backtrace(b.bt, 10); table[p] = b; }
        liveBytes += size; ++liveBlocks; if (liveBytes > peakBytes) peakBytes = liveBytes;
        return p;
    }
    void deallocate(void* p) override {
        if (yield) yield(1);
        if (!p) return;
        auto it = table.find(p);
        if (it == table.end()) { ++foreignFrees; if (firstBadFree.empty()) firstBadFree = "foreign-free"; return; }
        if (!it->second.live) {
            ++doubleFrees; if (firstBadFree.empty()) firstBadFree = "double-free serial=" + std::to_string(it->second.serial);
            if (!reuse && getenv("SIM_DOUBLE_FREE_ABORT")) std::free(p);   // debugging aid: let AddressSanitizer print both stacks
            return;
        }
        it->second.live = false; liveBytes -= it->second.size; --liveBlocks; ++frees;
        if (reuse) { memset(p, 0xDD, it->second.size); freeLists[klass(it->second.size ? it->second.size : 1)].push_back(p); }
        else { std::free(p); }   // pass-through: ASan owns use-after-free detection; tombstone stays until the address recurs
    }
    xercesc::MemoryManager* getExceptionMemoryManager() override { return xercesc::XMLPlatformUtils::fgMemoryManager; }

    // allocation sites (raw return addresses) of blocks still live; only with recordSites()
    std::vector<std::vector<void*>> liveSites(size_t max = 5) const {
        std::vector<std::vector<void*>> r;
        for (auto& kv : table) if (kv.second.live && kv.second.btn > 0 && r.size() < max) r.emplace_back(kv.second.bt + 1, kv.second.bt + kv.second.btn);
        return r;
    }
    // documented recovery: discard everything still outstanding
    uint64_t discardAll() {
        uint64_t n = 0;
        for (auto& kv : table) if (kv.second.live) { ++n; if (!reuse) std::free(kv.first); kv.second.live = false; }
        if (reuse && !aBase) { for (auto& kv : table) std::free(kv.first); }
        table.clear(); freeLists.clear(); liveBytes = 0; liveBlocks = 0;
        return n;
    }
    virtual ~SimMemoryManager() { discardAll(); if (aBase) munmap(aBase, ARENA_SLOT); }
};

} // namespace sim
