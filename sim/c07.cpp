// C07 — compiled stylesheets and parsed sources can be shared by concurrent threads.
// N real threads (one transformer each) transform over shared compiled stylesheets / parsed sources under the
// seeded serialising scheduler (sched.cpp); ThreadSanitizer is the happens-before oracle, the sequential baseline
// the output oracle.
#include "xform.hpp"
#include "sched.hpp"
#include <xalanc/XPath/Function.hpp>
#include <xalanc/XPath/XObjectFactory.hpp>
#include <thread>
#include <mutex>

using namespace sim;
using namespace xalanc;

namespace {

struct LockedMM : public SimMemoryManager {     // the owner's manager: may be entered from reader threads
    std::mutex mu; uint64_t concurrentAllocs = 0; bool concurrentPhase = false;
    uint64_t failAtConcurrent = 0; int faultTask = -1;      // the k-th allocation a reader thread makes in the owner's manager is refused once
    void* allocate(XMLSize_t n) override { std::lock_guard<std::mutex> g(mu);
        if (concurrentPhase) { ++concurrentAllocs; if (failAtConcurrent && concurrentAllocs == failAtConcurrent) { faultTask = simsched::currentTask(); ++refused; throw xercesc::OutOfMemoryException(); } }
        return SimMemoryManager::allocate(n); }
    void deallocate(void* p) override { std::lock_guard<std::mutex> g(mu); SimMemoryManager::deallocate(p); }
};

struct Shared {
    LockedMM mm; std::unique_ptr<XEnv> owner;
    std::vector<const XalanCompiledStylesheet*> sheets;
    std::vector<std::unique_ptr<SourceHolder>> sources;     // index = doc * 2 + (wrapper ? 1 : 0)
    std::string err;
    bool build(const Json& plan) {
        preWrapToggle() = plan.boolean("wrapper_prewrap");
        owner.reset(new XEnv(&mm, true));
        for (auto& kv : plan.at("resources").o) owner->fs.put(kv.first, kv.second.s);
        for (auto& s : plan.at("sheets").a) {
            owner->fs.put("ss.xsl", s.s); SimIStream is(s.s, SrcFault()); XSLTInputSource in(&is, mm); in.setSystemId(xs(std::string(SIM_BASE) + "ss.xsl", mm).c_str());
            const XalanCompiledStylesheet* cs = nullptr; if (owner->T->compileStylesheet(in, cs) != 0) { err = std::string("compile: ") + owner->T->getLastError(); return false; } sheets.push_back(cs);
        }
        for (auto& d : plan.at("docs").a) for (int w = 0; w < 2; ++w) {
            std::unique_ptr<SourceHolder> h(new SourceHolder);
            if (!makeSource(*owner, w ? (plan.boolean("wrapper_lazy") ? "wrapper-lazy" : "wrapper") : "parsed", d.s, SrcFault(), *h)) { err = "parse: " + h->err; return false; }
            sources.push_back(std::move(h));
        }
        return true;
    }
    void destroy() { sources.clear(); sheets.clear(); if (owner) owner->destroyTransformer(); owner.reset(); }
};

struct JobOut { int status = -99; bool threw = false; std::string exc, bytes, err; };

struct TaskCtx {
    int id; std::vector<Json> jobs; std::vector<JobOut> outs;
    SimMemoryManager mm;
};

// an extension function every reader installs on its own transformer under one name, each with its own answer: a per-transformer
// function is nobody else's business, whatever the other threads install meanwhile
class FunctionTagged : public Function {
public:
    explicit FunctionTagged(int t) : tag(t) {}
    XObjectPtr execute(XPathExecutionContext& ctx, XalanNode* context, const XObjectArgVectorType& args, const Locator* locator) const override {
        if (args.size() != 1) generalError(ctx, context, locator);
        simsched::point(2);
        const double v = args[0]->num(ctx);
        return ctx.getXObjectFactory().createNumber(v * v + 1000.0 * (tag + 1));
    }
    using Function::execute;
    FunctionTagged* clone(MemoryManager& m) const override { return XalanCopyConstruct(m, *this); }
protected:
    const XalanDOMString& getError(XalanDOMString& r) const override { r.assign("ext:sq() takes one argument"); return r; }
private:
    int tag;
};

void runTask(TaskCtx& t, Shared& sh, const Json& plan) {
    simsched::taskBegin(t.id);
    {
        t.mm.yield = [](int k) { simsched::point(k); };
        XEnv env(&t.mm, true);
        for (auto& kv : plan.at("resources").o) env.fs.put(kv.first, kv.second.s);
        env.resolver->yield = []() { simsched::point(2); };
        if (plan.boolean("extfn")) env.T->installExternalFunction(xs("urn:x-ext", env.manager()), xs("sq", env.manager()), FunctionTagged(t.id));
        for (auto& j : t.jobs) {
            JobOut o; SimSink sink; sink.yield = []() { simsched::point(2); };
            size_t di = (size_t)j.num("doc") % (sh.sources.size() / 2), si = (size_t)j.num("sheet") % sh.sheets.size(); bool w = j.boolean("wrapper");
            XformOut ex;
            try {
                o.status = env.T->transform(*sh.sources[di * 2 + (w ? 1 : 0)]->ps, sh.sheets[si], &sink, sinkCallback, sinkFlushCallback);
                if (o.status != 0) o.err = env.T->getLastError();
            }
            SIM_CATCH_ALL(ex)
            if (ex.threw) { o.threw = true; o.exc = ex.exc; }
            o.bytes = sink.bytes; t.outs.push_back(o);
        }
        env.destroyTransformer();
        t.mm.yield = nullptr;
    }
    simsched::taskEnd(t.id);
}

struct PhaseOut { std::vector<std::vector<JobOut>> outs; simsched::Stats st; std::vector<simsched::RaceReport> races; uint64_t ownerAllocs = 0; std::string err; int faultTask = -1; };

PhaseOut runPhase(const Json& plan, const simsched::Config& cfg, uint64_t ownerFailAt = 0) {
    PhaseOut po; Shared sh;
    if (!sh.build(plan)) { po.err = sh.err; return po; }
    int n = cfg.ntasks; std::vector<std::unique_ptr<TaskCtx>> tasks;
    const Json& tj = plan.at("tasks");
    for (int i = 0; i < n; ++i) { std::unique_ptr<TaskCtx> t(new TaskCtx); t->id = i; for (auto& j : tj.a[i % tj.a.size()].a) t->jobs.push_back(j); tasks.push_back(std::move(t)); }
    simsched::takeRaces();
    sh.mm.concurrentPhase = true; sh.mm.failAtConcurrent = ownerFailAt;
    simsched::start(cfg);
    std::vector<std::thread> th;
    for (int i = 0; i < n; ++i) th.emplace_back(runTask, std::ref(*tasks[i]), std::ref(sh), std::cref(plan));
    simsched::waitAllDone();
    for (auto& t : th) t.join();
    po.st = simsched::finish();
    sh.mm.concurrentPhase = false; po.ownerAllocs = sh.mm.concurrentAllocs; po.faultTask = sh.mm.faultTask; sh.mm.failAtConcurrent = 0;
    po.races = simsched::takeRaces();
    for (auto& t : tasks) po.outs.push_back(t->outs);
    sh.destroy();
    return po;
}

struct C07 : public Driver {
    const char* property() const override { return "C07"; }
    void init() override { xalanInitOnce(); simsched::installMutexManager(); }

    Json makePlan(uint64_t verifSeed, uint64_t run, const std::string& tier) override {
        uint64_t seed = runSeed(verifSeed, "C07", run);
        Rng root(seed); Rng g = root.fork("gen"), gs = root.fork("sched");
        Json p = Json::object(); p["property"] = "C07"; p["run"] = (long long)run; p["seed"] = hex64(seed); p["tier"] = tier;
        int nd = (int)g.range(1, 2), ns = (int)g.range(1, 2);
        Json docs = Json::array(), sheets = Json::array(), res = Json::object(); std::vector<GenDoc> gd;
        for (int i = 0; i < nd; ++i) { DocCfg dc; dc.maxNodes = (int)g.range(5, 25); dc.maxDepth = 4; dc.dtd = g.chance(1, 2); dc.ns = g.chance(2, 3); dc.manyNames = g.chance(1, 8); if (dc.manyNames) dc.maxNodes = 70; dc.deep = g.chance(1, 8); dc.deepLevels = 104; if (dc.deep) dc.maxNodes = 8; gd.push_back(genDoc(g, dc)); docs.push(gd.back().xml); }
        // facilities with lazily initialised state, forced in rotation
        static const std::vector<std::string> lazy = { "key", "keyids", "num-single", "num-multi", "num-any", "num-nocount", "id", "docfn", "fmtnum-df", "sort2", "attrset", "calltmpl", "modes", "exslt-set", "nodeset", "fmtnum", "rtf", "lang", "genid", "number-value" };
        auto allowed = featuresExcept({ "message", "doe" });
        const bool extfn = root.fork("extfn").chance(1, 3); p["extfn"] = extfn;     // every reader installs ext:sq on its own transformer, each with its own answer
        Json feats = Json::array();
        for (int i = 0; i < ns; ++i) {
            SSCfg sc; sc.on = pickFeatures(g, allowed, 1, 4); if (extfn) sc.on.insert("extfn"); sc.on.insert(lazy[(run * 2 + i) % lazy.size()]); sc.on.insert(g.pick(lazy));
            sc.docFn = sc.on.count("docfn") > 0 || g.chance(1, 4); sc.useImport = g.chance(1, 4); sc.useInclude = g.chance(1, 5); sc.stripSpace = g.chance(1, 3);
            static const std::vector<std::string> orders = { "doc", "rk", "rev" }; sc.order = g.pick(orders);
            GenSS s = genStylesheet(g, sc, gd[0]); sheets.push(s.xsl); for (auto& kv : s.resources) res[kv.first] = kv.second; for (auto& f : s.features) feats.push(f);
        }
        p["docs"] = docs; p["sheets"] = sheets; p["resources"] = res; p["features"] = feats;
        int nt = (int)gs.range(2, 4); p["ntasks"] = nt;
        // every shared object is used by at least two tasks with identical inputs: tasks come in twins
        Json tasks = Json::array();
        for (int i = 0; i < (nt + 1) / 2; ++i) { Json jobs = Json::array(); int nj = (int)gs.range(1, 2); for (int k = 0; k < nj; ++k) { Json j = Json::object(); j["doc"] = (int)gs.below(nd); j["sheet"] = (int)gs.below(ns); j["wrapper"] = gs.chance(1, 3); jobs.push(j); } tasks.push(jobs); tasks.push(jobs); }
        // one refused allocation in the shared objects' manager during the concurrent phase (fully built wrappers only: a lazily built one
        // that could not allocate a node is an inconsistent tree, and walking it further proves nothing)
        if (gs.chance(1, 4) && run % 3 != 1) p["ownerFailAt"] = (long long)(1 + gs.below(8));
        p["tasks"] = tasks; p["wrapper_lazy"] = run % 3 == 1; p["wrapper_prewrap"] = run % 4 == 2;     // the Xerces wrapper created with (threadSafe, !buildWrapper): documented as thread-safe too
        Json sc = Json::object(); unsigned k = (unsigned)gs.below(10);
        if (k == 0) sc["strategy"] = "sequential";
        else if (k < 5) { sc["strategy"] = "random"; static const std::vector<int> dens = { 4, 32, 256, 2048 }; sc["den"] = gs.pick(dens); }
        else { sc["strategy"] = "pct"; sc["d"] = (int)gs.range(1, 3); }
        sc["seed"] = (long long)(gs.next() >> 2); sc["funcPoints"] = gs.chance(3, 4);
        // a 104-deep document with multi-level numbering makes tens of millions of function calls: schedule at allocation and I/O points only
        { bool anyDeep = false; for (auto& d : gd) if (d.xml.find("<d><d><d><d>") != std::string::npos) anyDeep = true; if (anyDeep) sc["funcPoints"] = false; }
        p["sched"] = sc;
        return p;
    }

    void execute(const Json& plan, Result& res, Trace& tr) override {
        SimMemoryManager::arenaMode() = true; SimMemoryManager::arenaNewRun();
        int nt = (int)plan.num("ntasks", 2); if (nt < 1) nt = 1; if (nt > 6) nt = 6;
        if ((int)plan.at("tasks").a.size() == 0) { res.harness("no tasks"); return; }
        const Json& sc = plan.at("sched");
        // ---- sequential baseline (its own shared objects): expected outputs, step count
        simsched::Config base; base.ntasks = nt; base.strategy = simsched::Sequential; base.funcPoints = sc.boolean("funcPoints", true);
        PhaseOut b = runPhase(plan, base);
        if (!b.err.empty()) { tr.ev("setup-failed " + b.err); res.count("setup-failed"); return; }   // generator produced an invalid tuple: nothing to share
        // ---- concurrent phase on fresh shared objects
        simsched::Config cfg; cfg.ntasks = nt; cfg.seed = (uint64_t)sc.num("seed", 1); cfg.funcPoints = base.funcPoints;
        std::string strat = sc.str("strategy", "random");
        if (plan.has("schedule")) { cfg.strategy = simsched::Replay; for (auto& e : plan.at("schedule").a) cfg.replay.emplace_back((uint64_t)e.a[0].i, (int)e.a[1].i); strat = "replay"; }
        else if (strat == "sequential") cfg.strategy = simsched::Sequential;
        else if (strat == "random") { cfg.strategy = simsched::RandomWalk; cfg.switchDen = (unsigned)sc.num("den", 256); }
        else { cfg.strategy = simsched::PCT; Rng r(cfg.seed); int d = (int)sc.num("d", 2); for (int i = 0; i < nt; ++i) cfg.priorities.push_back(i); for (int i = nt - 1; i > 0; --i) std::swap(cfg.priorities[i], cfg.priorities[r.below(i + 1)]); for (int i = 0; i < d - 1; ++i) cfg.changePoints.push_back(1 + r.below(std::max<uint64_t>(1, b.st.steps))); std::sort(cfg.changePoints.begin(), cfg.changePoints.end()); }
        PhaseOut c = runPhase(plan, cfg, (uint64_t)plan.num("ownerFailAt", 0));
        if (c.faultTask >= 0) res.count("fault:shared-manager-allocation-refused");
        if (!c.err.empty()) { res.harness("shared objects could be built for the baseline but not for the concurrent phase: " + c.err); return; }
        // ---- oracles
        Json sched = Json::array(); for (auto& h : c.st.handovers) { Json e = Json::array(); e.push((long long)h.first); e.push(h.second); sched.push(e); }
        // the explicit schedule is attached for minimisation only when it is short; a long one is reproduced from the
        // plan's strategy and seed (same plan => same schedule, the run is deterministic)
        Json sub; if (c.st.handovers.size() <= 400) { sub = Json::object(); sub["schedule"] = sched; }
        res.count("schedules"); res.count("switches", (int64_t)c.st.switches); res.count("steps", (int64_t)c.st.steps); res.count("func_points", (int64_t)c.st.funcPoints); res.count("alloc_points", (int64_t)c.st.allocPoints); res.count("io_points", (int64_t)c.st.ioPoints);
        res.count("strategy:" + strat); if (c.st.switches > (uint64_t)nt) res.count("fault:preempt", (int64_t)(c.st.switches - nt)); res.count("probe:blocked-by-xerces-lock", (int64_t)c.st.blockedByLock);
        res.count("probe:owner-manager-allocations-during-concurrent-phase", (int64_t)c.ownerAllocs);
        res.extra["schedule_hash"] = hex64(c.st.scheduleHash);
        { Json dj = Json::object(); dj["interleavings(hash of the (step, task) hand-over sequence)"] = hex64(c.st.scheduleHash); res.extra["distinct"] = dj; }
        for (auto& f : plan.at("features").a) res.tag("facility:" + f.s);
        res.tag("tasks:" + std::to_string(nt) + "|" + strat);
        for (auto& r : c.races) res.violateSub("race", r.sig, r.detail + (c.ownerAllocs ? " (the owner's memory manager was entered " + std::to_string(c.ownerAllocs) + " times by reader threads)" : ""), sub);
        // ThreadSanitizer reports a given race once per process, and it sees no ordering between tasks even in the
        // sequential baseline, so a race first met there is the same finding (replay: the plan without a schedule)
        for (auto& r : b.races) res.violate("race", r.sig, r.detail + " (first met in the sequential baseline phase)");
        for (int i = 0; i < nt && i < (int)c.outs.size(); ++i) for (size_t j = 0; j < c.outs[i].size() && j < b.outs[i].size(); ++j) {
            const JobOut& x = c.outs[i][j]; const JobOut& y = b.outs[i][j];
            // A refused allocation in the shared object's manager.  The documented recovery model asks nothing more of objects on a manager that
            // has refused an allocation, and the other threads cannot stop in mid-transformation: what they compute afterwards is not judged.
            // What is judged in such a run: no thread may be left waiting for ever (a mutex still owned by a finished task ends the run with the
            // deadlock class, sched.cpp), no sanitizer error, no data race.
            if (c.faultTask >= 0) { if (x.status != y.status || x.threw != y.threw || x.bytes != y.bytes) res.count("probe:jobs-differing-after-shared-allocation-fault"); continue; }
            if (x.status != y.status || x.threw != y.threw) res.violateSub("status-differs", "task", "task " + std::to_string(i) + " job " + std::to_string(j) + ": status " + std::to_string(x.status) + (x.threw ? " " + x.exc : "") + " [" + x.err.substr(0, 200) + "] vs sequential " + std::to_string(y.status), sub);
            else if (x.bytes != y.bytes) { std::string d; std::string f = firstObsDiff(y.bytes, x.bytes, &d); res.violateSub("output-differs", f, "task " + std::to_string(i) + " job " + std::to_string(j) + " sequential vs concurrent: " + d, sub); }
        }
        if (c.st.budgetExceeded) { if (c.faultTask >= 0) res.count("probe:step-budget-exceeded-after-shared-allocation-fault"); else if (b.st.budgetExceeded || b.st.steps > simsched::Config().stepBudget / 2) res.count("probe:workload-larger-than-the-step-budget");      /* the sequential baseline needs (nearly) the whole budget itself: an expensive transformation, not a thread that makes no progress */
            else res.violate("step-budget", "exceeded", "scheduler step budget exceeded (the sequential baseline took " + std::to_string(b.st.steps) + " steps)"); }
        std::string oh; for (auto& t : c.outs) for (auto& o : t) oh += hex64(fnvStr(o.bytes)) + ":" + std::to_string(o.status) + ",";
        tr.ev("base steps=" + std::to_string(b.st.steps) + " conc steps=" + std::to_string(c.st.steps) + " switches=" + std::to_string(c.st.switches) + " sched=" + hex64(c.st.scheduleHash) + " outs=" + oh + " races=" + std::to_string(c.races.size()));
    }
};

} // namespace

int main(int argc, char** argv) { C07 d; return driverMain(argc, argv, d); }
