// Transformation harness: one request (bytes by value + forms + faults) executed through the public API.
#pragma once
#include "glue.hpp"
#include "gen.hpp"
#include <xalanc/PlatformSupport/XalanOutputStreamPrintWriter.hpp>
#include <xalanc/XalanTransformer/XalanDocumentBuilder.hpp>
#include <xalanc/XalanTransformer/XercesDOMWrapperParsedSource.hpp>
#include <xalanc/XalanTransformer/XercesDOMParsedSource.hpp>
#include <xalanc/XalanTransformer/XalanSourceTreeWrapperParsedSource.hpp>
#include <xalanc/XercesParserLiaison/XercesParserLiaison.hpp>
#include <xalanc/XercesParserLiaison/XercesDOMSupport.hpp>
#include <xalanc/XercesParserLiaison/FormatterToXercesDOM.hpp>
#include <xalanc/XalanSourceTree/XalanSourceTreeParserLiaison.hpp>
#include <xalanc/XalanSourceTree/XalanSourceTreeDOMSupport.hpp>
#include <xalanc/XalanSourceTree/XalanSourceTreeDocument.hpp>
#include <xalanc/XalanSourceTree/FormatterToSourceTree.hpp>
#include <xalanc/XalanSourceTree/XalanSourceTreeInit.hpp>
#include <xalanc/XalanDOM/XalanNamedNodeMap.hpp>
#include <xalanc/XalanDOM/XalanNode.hpp>
#include <xalanc/XalanDOM/XalanDocument.hpp>
#include <xalanc/XalanDOM/XalanElement.hpp>
#include <xalanc/XalanDOM/XalanAttr.hpp>
#include <xercesc/parsers/XercesDOMParser.hpp>
#include <xercesc/parsers/SAX2XMLReaderImpl.hpp>
#include <xercesc/sax2/XMLReaderFactory.hpp>
#include <xercesc/sax2/SAX2XMLReader.hpp>
#include <xercesc/sax2/DefaultHandler.hpp>
#include <xercesc/framework/MemBufInputSource.hpp>
#include <xercesc/dom/DOM.hpp>
#include <xercesc/sax/HandlerBase.hpp>
#include <algorithm>
#include <memory>
#include <fstream>
#include <unistd.h>
#include <sys/stat.h>

namespace sim {

using namespace xalanc;

struct XformOut {
    int status = -99;
    bool threw = false; std::string exc;
    std::string bytes;            // result bytes (byte targets) or canonical tree (tree targets)
    std::string canon;            // canonical tree form when computed
    std::string err; bool errEmpty = false;
    uint64_t sinkWrites = 0, sinkFlushes = 0, sinkFaults = 0, writesAfterFault = 0; bool flushedLast = false;
    std::vector<size_t> chunks;
    bool ok() const { return status == 0 && !threw; }
};

// ------------------------------------------------------------------ canonical trees
inline void canonEsc(std::string& o, const std::string& s) { for (char c : s) { if (c == '\\' || c == '|' || c == '{' || c == '}') o += '\\'; o += c; } }

inline std::string narrowU8(const XMLCh* s) {
    if (!s) return ""; XalanDOMString x(s); return toUtf8(x);
}
inline void canonDOM(const xercesc::DOMNode* n, std::string& o) {
    using namespace xercesc;
    switch (n->getNodeType()) {
    case DOMNode::DOCUMENT_NODE: case DOMNode::DOCUMENT_FRAGMENT_NODE: {
        o += "D{"; std::string pendingText;
        for (DOMNode* c = n->getFirstChild(); c; c = c->getNextSibling()) canonDOM(c, o);
        o += "}"; break; }
    case DOMNode::ELEMENT_NODE: {
        o += "E{"; canonEsc(o, narrowU8(n->getNamespaceURI())); o += "|"; canonEsc(o, narrowU8(n->getLocalName() ? n->getLocalName() : n->getNodeName())); o += "|";
        std::vector<std::string> attrs; DOMNamedNodeMap* m = n->getAttributes();
        for (XMLSize_t i = 0; m && i < m->getLength(); ++i) {
            DOMNode* a = m->item(i); std::string nm = narrowU8(a->getNodeName());
            if (nm == "xmlns" || nm.compare(0, 6, "xmlns:") == 0) continue;
            std::string e; canonEsc(e, narrowU8(a->getNamespaceURI())); e += "^"; canonEsc(e, narrowU8(a->getLocalName() ? a->getLocalName() : a->getNodeName())); e += "="; canonEsc(e, narrowU8(a->getNodeValue()));
            attrs.push_back(e);
        }
        std::sort(attrs.begin(), attrs.end()); for (auto& a : attrs) { o += a; o += ";"; }
        o += "|";
        std::string text;
        for (DOMNode* c = n->getFirstChild(); c; c = c->getNextSibling()) {
            if (c->getNodeType() == DOMNode::TEXT_NODE || c->getNodeType() == DOMNode::CDATA_SECTION_NODE) { text += narrowU8(c->getNodeValue()); continue; }
            if (!text.empty()) { o += "T{"; canonEsc(o, text); o += "}"; text.clear(); }
            canonDOM(c, o);
        }
        if (!text.empty()) { o += "T{"; canonEsc(o, text); o += "}"; }
        o += "}"; break; }
    case DOMNode::TEXT_NODE: case DOMNode::CDATA_SECTION_NODE: o += "T{"; canonEsc(o, narrowU8(n->getNodeValue())); o += "}"; break;
    case DOMNode::COMMENT_NODE: o += "C{"; canonEsc(o, narrowU8(n->getNodeValue())); o += "}"; break;
    case DOMNode::PROCESSING_INSTRUCTION_NODE: o += "P{"; canonEsc(o, narrowU8(n->getNodeName())); o += "|"; canonEsc(o, narrowU8(n->getNodeValue())); o += "}"; break;
    default: break;   // doctype etc. are not part of the data model
    }
}
inline void canonXalan(const XalanNode* n, std::string& o) {
    switch (n->getNodeType()) {
    case XalanNode::DOCUMENT_NODE: case XalanNode::DOCUMENT_FRAGMENT_NODE:
        o += "D{"; for (const XalanNode* c = n->getFirstChild(); c; c = c->getNextSibling()) canonXalan(c, o); o += "}"; break;
    case XalanNode::ELEMENT_NODE: {
        { std::string ln = toUtf8(n->getLocalName()); if (ln.empty()) { ln = toUtf8(n->getNodeName()); size_t c = ln.find(':'); if (c != std::string::npos) ln = ln.substr(c + 1); }
          o += "E{"; canonEsc(o, toUtf8(n->getNamespaceURI())); o += "|"; canonEsc(o, ln); o += "|"; }
        std::vector<std::string> attrs; const XalanNamedNodeMap* m = n->getAttributes();
        for (XalanSize_t i = 0; m && i < m->getLength(); ++i) {
            const XalanNode* a = m->item(i); std::string nm = toUtf8(a->getNodeName());
            if (nm == "xmlns" || nm.compare(0, 6, "xmlns:") == 0) continue;
            std::string ln = toUtf8(a->getLocalName()); if (ln.empty()) { ln = nm; size_t c = ln.find(':'); if (c != std::string::npos) ln = ln.substr(c + 1); }
            std::string e; canonEsc(e, toUtf8(a->getNamespaceURI())); e += "^"; canonEsc(e, ln); e += "="; canonEsc(e, toUtf8(a->getNodeValue()));
            attrs.push_back(e);
        }
        std::sort(attrs.begin(), attrs.end()); for (auto& a : attrs) { o += a; o += ";"; }
        o += "|"; std::string text;
        for (const XalanNode* c = n->getFirstChild(); c; c = c->getNextSibling()) {
            if (c->getNodeType() == XalanNode::TEXT_NODE || c->getNodeType() == XalanNode::CDATA_SECTION_NODE) { text += toUtf8(c->getNodeValue()); continue; }
            if (!text.empty()) { o += "T{"; canonEsc(o, text); o += "}"; text.clear(); }
            canonXalan(c, o);
        }
        if (!text.empty()) { o += "T{"; canonEsc(o, text); o += "}"; }
        o += "}"; break; }
    case XalanNode::TEXT_NODE: case XalanNode::CDATA_SECTION_NODE: o += "T{"; canonEsc(o, toUtf8(n->getNodeValue())); o += "}"; break;
    case XalanNode::COMMENT_NODE: o += "C{"; canonEsc(o, toUtf8(n->getNodeValue())); o += "}"; break;
    case XalanNode::PROCESSING_INSTRUCTION_NODE: o += "P{"; canonEsc(o, toUtf8(n->getNodeName())); o += "|"; canonEsc(o, toUtf8(n->getNodeValue())); o += "}"; break;
    default: break;
    }
}
struct QuietErrorHandler : public xercesc::HandlerBase {
    bool failed = false; std::string msg;
    void warning(const xercesc::SAXParseException&) override {}
    void error(const xercesc::SAXParseException& e) override { failed = true; if (msg.empty()) msg = narrowU8(e.getMessage()); }
    void fatalError(const xercesc::SAXParseException& e) override { failed = true; if (msg.empty()) msg = narrowU8(e.getMessage()); }
};
// canonical form of result bytes parsed by Xerces' DOM parser (independent of the serializers); "" + *err set when not well-formed
inline std::string canonFromBytes(const std::string& bytes, std::string* err = nullptr) {
    using namespace xercesc;
    XercesDOMParser parser; QuietErrorHandler eh;
    parser.setDoNamespaces(true); parser.setValidationScheme(XercesDOMParser::Val_Never); parser.setLoadExternalDTD(false); parser.setErrorHandler(&eh); parser.setCreateEntityReferenceNodes(false);
    MemBufInputSource src((const XMLByte*)bytes.data(), bytes.size(), "result", false);
    try { parser.parse(src); } catch (const XMLException& e) { eh.failed = true; eh.msg = narrowU8(e.getMessage()); } catch (const SAXException& e) { eh.failed = true; eh.msg = narrowU8(e.getMessage()); } catch (...) { eh.failed = true; eh.msg = "exception"; }
    if (eh.failed || !parser.getDocument()) { if (err) *err = eh.msg.empty() ? "parse failed" : eh.msg; return ""; }
    std::string o; canonDOM(parser.getDocument(), o); return o;
}
// true when the bytes hold no markup and no text at all (an empty result, possibly with an XML declaration / BOM)
inline bool emptyResult(const std::string& bytes) {
    std::string b = bytes; if (b.compare(0, 3, "\xEF\xBB\xBF") == 0) b = b.substr(3);
    if (b.compare(0, 5, "<?xml") == 0) { size_t e = b.find("?>"); if (e != std::string::npos) b = b.substr(e + 2); }
    for (char c : b) if (c != ' ' && c != '\n' && c != '\r' && c != '\t') return false;
    return true;
}

// ------------------------------------------------------------------ a transformer with its simulated world
struct Param { std::string name, kind, value; };   // kind: expr | string | number

struct TransformerDeleter {
    xercesc::MemoryManager* placed = nullptr;     // non-null: the object lives in a block of this manager
    void operator()(XalanTransformer* t) const { if (!t) return; if (placed) { t->~XalanTransformer(); placed->deallocate(t); } else delete t; }
};

struct XEnv {
    xercesc::MemoryManager* mm;       // manager given to the transformer (may be the default)
    std::unique_ptr<XalanTransformer, TransformerDeleter> T;
    SimFS fs; std::unique_ptr<SimResolver> resolver;
    std::vector<const XalanCompiledStylesheet*> sheets;
    std::vector<const XalanParsedSource*> sources;
    std::string scratchDir; std::vector<std::string> scratchFiles;
    // placeInManager: allocate the transformer object itself from the manager too (deterministic-arena runs)
    explicit XEnv(xercesc::MemoryManager* m = nullptr, bool placeInManager = false) : mm(m) {
        if (m && placeInManager) { void* p = m->allocate(sizeof(XalanTransformer)); T = std::unique_ptr<XalanTransformer, TransformerDeleter>(new (p) XalanTransformer(*m), TransformerDeleter{ m }); }
        else T = std::unique_ptr<XalanTransformer, TransformerDeleter>(m ? new XalanTransformer(*m) : new XalanTransformer(), TransformerDeleter{});
        resolver.reset(new SimResolver(fs)); T->setEntityResolver(resolver.get());
    }
    xercesc::MemoryManager& manager() { return mm ? *mm : *xercesc::XMLPlatformUtils::fgMemoryManager; }
    void destroyTransformer() { sheets.clear(); sources.clear(); T.reset(); }
};

inline XalanDOMString xs(const std::string& utf8, xercesc::MemoryManager& mm) {
    // UTF-8 -> UTF-16 (inputs here are generator produced and valid)
    XalanDOMString r(mm); const unsigned char* p = (const unsigned char*)utf8.data(); size_t n = utf8.size();
    for (size_t i = 0; i < n;) {
        uint32_t c = p[i]; int len = c < 0x80 ? 1 : c < 0xE0 ? 2 : c < 0xF0 ? 3 : 4;
        if (len == 1) { r.push_back((XalanDOMChar)c); ++i; continue; }
        if (i + len > n) { r.push_back((XalanDOMChar)0xFFFD); break; }
        c &= (0xFF >> (len + 1)); for (int k = 1; k < len; ++k) c = (c << 6) | (p[i + k] & 0x3F); i += len;
        if (c >= 0x10000) { c -= 0x10000; r.push_back((XalanDOMChar)(0xD800 + (c >> 10))); r.push_back((XalanDOMChar)(0xDC00 + (c & 0x3FF))); } else r.push_back((XalanDOMChar)c);
    }
    return r;
}

inline void applyParams(XalanTransformer& t, const std::vector<Param>& ps, xercesc::MemoryManager& mm) {
    for (auto& p : ps) {
        if (p.kind == "number") t.setStylesheetParam(xs(p.name, mm), atof(p.value.c_str()));
        else if (p.kind == "string") t.setStylesheetParam(xs(p.name, mm), xs("'" + p.value + "'", mm));   // quoted expression form
        else t.setStylesheetParam(xs(p.name, mm), xs(p.value, mm));
    }
}

struct XReq {
    std::string doc, xsl;                          // bytes, fault-free
    std::string srcForm = "stream";                // stream | inputsource | file | parsed | parsed-xerces | wrapper | builder | stwrapper
    std::string ssForm = "stream";                 // stream | inputsource | file | compiled | pi
    std::string tgtForm = "callback";              // callback | ostream | cfile | filename | writer | xercesdom | sourcetree
    SrcFault docFault, xslFault; SinkFault sinkFault;
    unsigned bufSize = 512, tblock = 1024;         // writer form
    bool wantCanon = false;
    std::string ssSysId;                           // system id of the stylesheet for the stream / InputSource forms (default SIM_BASE + "ss.xsl")
    std::string docSysId;                          // system id of the source as the caller writes it, for the forms where the library derives the document URL from it
                                                   // (stream, inputsource, parsed, parsed-xerces); default SIM_BASE + "doc.xml".
    std::string docUrl;                            // the URL handed to the forms that take the document URL from the caller (wrapper, stwrapper, builder); default SIM_BASE + "doc.xml"
};

// exceptions the driver may see escaping a call
#define SIM_CATCH_ALL(out) \
    catch (const xercesc::OutOfMemoryException&) { (out).threw = true; (out).exc = "OutOfMemoryException"; } \
    catch (const SinkFailure&) { (out).threw = true; (out).exc = "SinkFailure"; } \
    catch (const XSLException&) { (out).threw = true; (out).exc = "XSLException"; } \
    catch (const xercesc::XMLException&) { (out).threw = true; (out).exc = "XMLException"; } \
    catch (const xercesc::SAXException&) { (out).threw = true; (out).exc = "SAXException"; } \
    catch (const xercesc::DOMException&) { (out).threw = true; (out).exc = "DOMException"; } \
    catch (const std::exception& e) { (out).threw = true; (out).exc = std::string("std::exception:") + e.what(); } \
    catch (...) { (out).threw = true; (out).exc = "unknown"; }

inline std::string writeScratch(XEnv& env, const std::string& name, const std::string& bytes) {
    if (env.scratchDir.empty()) {
        static unsigned long counter = 0;
        const char* rd = getenv("VERIF_RUNDIR"); std::string base = rd ? rd : "/tmp";
        ::mkdir(base.c_str(), 0777);
        env.scratchDir = base + "/scratch-" + std::to_string(getpid()) + "-" + std::to_string(++counter);
        ::mkdir(env.scratchDir.c_str(), 0777);
    }
    std::string p = env.scratchDir + "/" + name; std::ofstream f(p, std::ios::binary); f.write(bytes.data(), bytes.size());
    if (std::find(env.scratchFiles.begin(), env.scratchFiles.end(), p) == env.scratchFiles.end()) env.scratchFiles.push_back(p);
    return p;
}
inline void removeScratch(XEnv& env) {
    if (env.scratchDir.empty()) return;
    for (auto& f : env.scratchFiles) ::unlink(f.c_str());
    ::rmdir(env.scratchDir.c_str()); env.scratchFiles.clear(); env.scratchDir.clear();
}

// SAX2 -> XalanDocumentBuilder bridge
struct BuilderFeeder : public xercesc::DefaultHandler {
    xercesc::ContentHandler* ch; xercesc::LexicalHandler* lh; QuietErrorHandler eh;
    BuilderFeeder(xercesc::ContentHandler* c, xercesc::LexicalHandler* l) : ch(c), lh(l) {}
    void startDocument() override { ch->startDocument(); }
    void endDocument() override { ch->endDocument(); }
    void startElement(const XMLCh* const u, const XMLCh* const l, const XMLCh* const q, const xercesc::Attributes& a) override { ch->startElement(u, l, q, a); }
    void endElement(const XMLCh* const u, const XMLCh* const l, const XMLCh* const q) override { ch->endElement(u, l, q); }
    void characters(const XMLCh* const c, const XMLSize_t n) override { ch->characters(c, n); }
    void ignorableWhitespace(const XMLCh* const c, const XMLSize_t n) override { ch->ignorableWhitespace(c, n); }
    void processingInstruction(const XMLCh* const t, const XMLCh* const d) override { ch->processingInstruction(t, d); }
    void startPrefixMapping(const XMLCh* const p, const XMLCh* const u) override { ch->startPrefixMapping(p, u); }
    void endPrefixMapping(const XMLCh* const p) override { ch->endPrefixMapping(p); }
    void comment(const XMLCh* const c, const XMLSize_t n) override { if (lh) lh->comment(c, n); }
    void setDocumentLocator(const xercesc::Locator* const l) override { ch->setDocumentLocator(l); }
    void error(const xercesc::SAXParseException& e) override { eh.error(e); throw e; }
    void fatalError(const xercesc::SAXParseException& e) override { eh.fatalError(e); throw e; }
    void warning(const xercesc::SAXParseException&) override {}
};

// An XSLTInputSource whose bytes come from a SimInputSource (BinInputStream form of the seam)
struct InputSourceAdapter : public XSLTInputSource {
    const SimInputSource& inner;
    InputSourceAdapter(const SimInputSource& s, xercesc::MemoryManager& mm) : XSLTInputSource(mm), inner(s) { setSystemId(s.getSystemId()); }
    xercesc::BinInputStream* makeStream() const override { return inner.makeStream(); }
};

// Holds the helper objects a pre-parsed source form needs to stay alive.
struct SourceHolder {
    const XalanParsedSource* ps = nullptr; bool ownedByTransformer = false;
    std::unique_ptr<xercesc::XercesDOMParser> domParser; std::unique_ptr<XercesParserLiaison> xLiaison; std::unique_ptr<XercesDOMSupport> xSupport; std::unique_ptr<XercesDOMWrapperParsedSource> wrapper; std::unique_ptr<XalanParsedSource> lazyWrapper;
    std::unique_ptr<XalanSourceTreeParserLiaison> stLiaison; std::unique_ptr<XalanSourceTreeDOMSupport> stSupport; std::unique_ptr<XalanSourceTreeWrapperParsedSource> stWrapper;
    XalanDocumentBuilder* builder = nullptr; XalanTransformer* owner = nullptr;
    int status = 0; std::string err; bool threw = false; std::string exc;
    ~SourceHolder() { release(); }
    void release() {
        lazyWrapper.reset(); wrapper.reset(); xSupport.reset(); xLiaison.reset(); domParser.reset();
        stWrapper.reset(); stSupport.reset(); stLiaison.reset();
        if (owner) { if (builder) owner->destroyDocumentBuilder(builder); else if (ps && ownedByTransformer) owner->destroyParsedSource(ps); }
        builder = nullptr; ps = nullptr; owner = nullptr;
    }
};

// A caller's own XalanParsedSource over a document the Xerces liaison wraps with threadSafe = true and buildWrapper = false
// (XercesParserLiaison::createDocument documents threadSafe as implying a fully built wrapper): what XercesDOMWrapperParsedSource
// does, with the other legal value of the third argument.
class LazyWrapperParsedSource : public XalanParsedSource {
public:
    LazyWrapperParsedSource(const xercesc::DOMDocument* d, XercesParserLiaison& l, const XalanDOMString& uri, xercesc::MemoryManager& mm) : m_liaison(l), m_doc(l.createDocument(d, true, false)), m_uri(uri, mm) {}
    ~LazyWrapperParsedSource() { m_liaison.destroyDocument(m_doc); }
    XalanDocument* getDocument() const override { return m_doc; }
    XalanParsedSourceHelper* createHelper(xercesc::MemoryManager& mm) const override { return XercesDOMParsedSourceHelper::create(mm); }
    const XalanDOMString& getURI() const override { return m_uri; }
private:
    XercesParserLiaison& m_liaison; XalanDocument* m_doc; XalanDOMString m_uri;
};

// The application has already asked the liaison for a wrapper of the same DOM with the liaison's defaults (for an XPath query, say)
// before it builds the thread-safe parsed source: a legal sequence, toggled by the plan.
inline bool& preWrapToggle() { static bool b = false; return b; }

// build a pre-parsed source in the requested form; returns false (holder.status != 0) when parsing failed
inline bool makeSource(XEnv& env, const std::string& form, const std::string& docBytes, const SrcFault& f, SourceHolder& h, const std::string& callerSysId = std::string(), const std::string& callerUrl = std::string()) {
    xercesc::MemoryManager& mm = env.manager();
    const std::string seen = applySrcFault(docBytes, f);
    const std::string sysId = callerUrl.empty() ? std::string(SIM_BASE) + "doc.xml" : callerUrl;
    try {
        if (form == "parsed" || form == "parsed-xerces") {
            SimIStream is(seen, f, &env.fs.stats); XSLTInputSource in(&is, mm); in.setSystemId(xs(callerSysId.empty() ? sysId : callerSysId, mm).c_str());
            h.status = env.T->parseSource(in, h.ps, form == "parsed-xerces"); h.owner = env.T.get(); h.ownedByTransformer = true;
            if (h.status != 0) { h.err = env.T->getLastError(); h.ps = nullptr; h.owner = nullptr; }
        } else if (form == "wrapper" || form == "wrapper-lazy") {
            h.domParser.reset(new xercesc::XercesDOMParser(nullptr, &mm)); QuietErrorHandler eh;
            h.domParser->setDoNamespaces(true); h.domParser->setErrorHandler(&eh); h.domParser->setEntityResolver(env.resolver.get());      /* the external DTD subset comes from the simulated file system, as for the library's own parsers */ h.domParser->setValidationScheme(xercesc::XercesDOMParser::Val_Never); h.domParser->setCreateEntityReferenceNodes(false);
            SimInputSource src(seen, f, sysId, &env.fs.stats);
            // this is the caller's own use of Xerces: what its DOM parser throws (a DOMException for version="1,0") is a failed parse of the caller, not of Xalan
            try { h.domParser->parse(src); } catch (const xercesc::DOMException& e) { eh.failed = true; eh.msg = "DOMException " + narrowU8(e.getMessage()); }
            if (eh.failed || !h.domParser->getDocument()) { h.status = -1; h.err = eh.msg.empty() ? "parse failed" : eh.msg; }
            else {
                h.xLiaison.reset(new XercesParserLiaison(mm)); h.xSupport.reset(new XercesDOMSupport(*h.xLiaison));
                if (preWrapToggle()) (void)h.xLiaison->createDocument(h.domParser->getDocument());
                if (form == "wrapper-lazy") { h.lazyWrapper.reset(new LazyWrapperParsedSource(h.domParser->getDocument(), *h.xLiaison, xs(sysId, mm), mm)); h.ps = h.lazyWrapper.get(); }
                else { h.wrapper.reset(new XercesDOMWrapperParsedSource(h.domParser->getDocument(), *h.xLiaison, *h.xSupport, xs(sysId, mm), mm)); h.ps = h.wrapper.get(); }
            }
        } else if (form == "stwrapper") {
            h.stLiaison.reset(new XalanSourceTreeParserLiaison(mm)); h.stSupport.reset(new XalanSourceTreeDOMSupport(*h.stLiaison));
            QuietErrorHandler eh; h.stLiaison->setErrorHandler(&eh); h.stLiaison->setEntityResolver(env.resolver.get());
            SimInputSource src(seen, f, sysId, &env.fs.stats);
            XalanDocument* d = h.stLiaison->parseXMLStream(src, xs(sysId, mm));
            XalanSourceTreeDocument* sd = d ? h.stLiaison->mapDocument(d) : nullptr;
            if (!sd || eh.failed) { h.status = -1; h.err = eh.msg.empty() ? "parse failed" : eh.msg; }
            else { h.stWrapper.reset(new XalanSourceTreeWrapperParsedSource(sd, *h.stLiaison, *h.stSupport, xs(sysId, mm), mm)); h.ps = h.stWrapper.get(); }
        } else if (form == "builder") {
            h.builder = env.T->createDocumentBuilder(xs(sysId, mm)); h.owner = env.T.get();
            if (!h.builder) { h.status = -1; h.err = env.T->getLastError(); h.owner = nullptr; }
            else {
                std::unique_ptr<xercesc::SAX2XMLReader> rd(xercesc::XMLReaderFactory::createXMLReader());
                BuilderFeeder bf(h.builder->getContentHandler(), h.builder->getLexicalHandler());
                rd->setFeature(xercesc::XMLUni::fgSAX2CoreNameSpaces, true); rd->setFeature(xercesc::XMLUni::fgSAX2CoreNameSpacePrefixes, true);
                rd->setFeature(xercesc::XMLUni::fgXercesLoadExternalDTD, true); rd->setFeature(xercesc::XMLUni::fgSAX2CoreValidation, false); rd->setFeature(xercesc::XMLUni::fgXercesDynamic, false);
                rd->setEntityResolver(env.resolver.get()); rd->setContentHandler(&bf); rd->setLexicalHandler(&bf); rd->setErrorHandler(&bf); rd->setDTDHandler(h.builder->getDTDHandler());   // unparsed entities reach the builder through its DTD handler
                SimInputSource src(seen, f, sysId, &env.fs.stats);
                rd->parse(src);
                h.ps = h.builder;
            }
        } else { h.status = -2; h.err = "unknown source form " + form; }
    }
    catch (const xercesc::SAXParseException& e) { h.status = -1; h.err = narrowU8(e.getMessage()); if (h.err.empty()) h.err = "SAXParseException"; h.ps = nullptr; }
    SIM_CATCH_ALL(h)
    if (h.threw) { h.status = -1; if (h.err.empty()) h.err = h.exc; h.ps = nullptr; }
    return h.status == 0 && h.ps != nullptr;
}

// One transformation.  `pre` (optional) = an already built source to use for pre-parsed forms; `cs` = compiled stylesheet for ssForm "compiled".
inline XformOut runTransform(XEnv& env, const XReq& rq, SimSink& sink, const XalanParsedSource* pre = nullptr, const XalanCompiledStylesheet* cs = nullptr) {
    XformOut out; xercesc::MemoryManager& mm = env.manager(); XalanTransformer& T = *env.T;
    sink.reset(rq.sinkFault);
    const std::string docSeen = applySrcFault(rq.doc, rq.docFault), xslSeen = applySrcFault(rq.xsl, rq.xslFault);
    const std::string docId = std::string(SIM_BASE) + "doc.xml", ssId = rq.ssSysId.empty() ? std::string(SIM_BASE) + "ss.xsl" : rq.ssSysId;
    env.fs.put("ss.xsl", rq.xsl); env.fs.put("doc.xml", rq.doc);
    if (rq.xslFault.destructive() || rq.xslFault.maxChunk) env.fs.faults["ss.xsl"] = rq.xslFault; else env.fs.faults.erase("ss.xsl");
    // --- inputs
    std::unique_ptr<SimIStream> dstream, sstream; std::unique_ptr<XSLTInputSource> din, sin; std::unique_ptr<SimInputSource> dsrc, ssrc;
    SourceHolder holder; const XalanParsedSource* ps = pre;
    bool preparsed = rq.srcForm != "stream" && rq.srcForm != "inputsource" && rq.srcForm != "file";
    try {
        if (preparsed && !ps) {
            if (!makeSource(env, rq.srcForm, rq.doc, rq.docFault, holder, rq.docSysId, rq.docUrl)) { out.status = holder.status ? holder.status : -1; out.err = holder.err; out.errEmpty = out.err.empty(); out.threw = holder.threw; out.exc = holder.exc; return out; }
            ps = holder.ps;
        }
        if (!preparsed) {
            if (rq.srcForm == "stream") { dstream.reset(new SimIStream(docSeen, rq.docFault, &env.fs.stats)); din.reset(new XSLTInputSource(dstream.get(), mm)); din->setSystemId(xs(rq.docSysId.empty() ? docId : rq.docSysId, mm).c_str()); }
            else if (rq.srcForm == "file") { std::string p = writeScratch(env, "doc.xml", docSeen); din.reset(new XSLTInputSource(p.c_str(), mm));
                for (auto& kv : env.fs.files) if (kv.first != "ss.xsl" && kv.first != "doc.xml") writeScratch(env, kv.first, kv.second);      // what the document refers to (an external DTD subset) lies next to it
                if (rq.ssForm == "pi") writeScratch(env, "ss.xsl", xslSeen); }
            else { dsrc.reset(new SimInputSource(docSeen, rq.docFault, rq.docSysId.empty() ? docId : rq.docSysId, &env.fs.stats)); }
        }
        bool haveSS = true;
        if (rq.ssForm == "stream") { sstream.reset(new SimIStream(xslSeen, rq.xslFault, &env.fs.stats)); sin.reset(new XSLTInputSource(sstream.get(), mm)); sin->setSystemId(xs(ssId, mm).c_str()); }
        else if (rq.ssForm == "file") { std::string p = writeScratch(env, "ss.xsl", xslSeen); for (auto& kv : env.fs.files) if (kv.first != "ss.xsl" && kv.first != "doc.xml") writeScratch(env, kv.first, kv.second); sin.reset(new XSLTInputSource(p.c_str(), mm)); }
        else if (rq.ssForm == "inputsource") { ssrc.reset(new SimInputSource(xslSeen, rq.xslFault, ssId, &env.fs.stats)); }
        else haveSS = false;   // compiled | pi
        // --- target
        std::unique_ptr<SinkOStream> os; FILE* cf = nullptr; std::unique_ptr<SinkXalanOutputStream> xos; std::unique_ptr<XalanOutputStreamPrintWriter> pw;
        std::unique_ptr<XSLTResultTarget> rt; std::string outPath;
        std::unique_ptr<xercesc::DOMDocument, void(*)(xercesc::DOMDocument*)> domDoc(nullptr, [](xercesc::DOMDocument* d) { if (d) d->release(); });
        std::unique_ptr<FormatterToXercesDOM> fdom; std::unique_ptr<XalanSourceTreeParserLiaison> tLia; std::unique_ptr<FormatterToSourceTree> fst; XalanSourceTreeDocument* stDoc = nullptr;
        bool callbackForm = rq.tgtForm == "callback";
        if (rq.tgtForm == "ostream") { os.reset(new SinkOStream(sink)); rt.reset(new XSLTResultTarget(os.get(), mm)); }
        else if (rq.tgtForm == "cfile") { cf = sinkFILE(sink); rt.reset(new XSLTResultTarget(cf, mm)); }
        else if (rq.tgtForm == "filename") { outPath = writeScratch(env, "out.xml", ""); rt.reset(new XSLTResultTarget(outPath.c_str(), mm)); }
        else if (rq.tgtForm == "writer") { xos.reset(new SinkXalanOutputStream(sink, mm, rq.bufSize, rq.tblock)); pw.reset(new XalanOutputStreamPrintWriter(*xos)); rt.reset(new XSLTResultTarget(pw.get(), mm)); }
        else if (rq.tgtForm == "xercesdom") { domDoc.reset(xercesc::DOMImplementation::getImplementation()->createDocument()); fdom.reset(new FormatterToXercesDOM(domDoc.get(), nullptr, mm)); rt.reset(new XSLTResultTarget(*fdom, mm)); }
        else if (rq.tgtForm == "sourcetree") { tLia.reset(new XalanSourceTreeParserLiaison(mm)); stDoc = tLia->createXalanSourceTreeDocument(); fst.reset(new FormatterToSourceTree(mm, stDoc)); rt.reset(new XSLTResultTarget(*fst, mm)); }
        else if (!callbackForm) { out.status = -2; out.err = "unknown target form"; return out; }
        // --- the call (one of the public overloads)
        std::unique_ptr<XSLTInputSource> dcopy, scopy;
        const XSLTInputSource* Dp = din.get(); const XSLTInputSource* Sp = sin.get();
        if (dsrc) { dcopy.reset(new InputSourceAdapter(*dsrc, mm)); Dp = dcopy.get(); }
        if (ssrc) { scopy.reset(new InputSourceAdapter(*ssrc, mm)); Sp = scopy.get(); }
        std::unique_ptr<SinkOStream> o2; std::unique_ptr<XSLTResultTarget> r2;   // for overloads that have no callback variant
        auto viaStream = [&]() -> XSLTResultTarget& { o2.reset(new SinkOStream(sink)); r2.reset(new XSLTResultTarget(o2.get(), mm)); return *r2; };
        if (preparsed) {
            if (rq.ssForm == "compiled") { if (callbackForm) out.status = T.transform(*ps, cs, &sink, sinkCallback, sinkFlushCallback); else out.status = T.transform(*ps, cs, *rt); }
            else if (rq.ssForm == "pi") out.status = T.transform(*ps, callbackForm ? viaStream() : *rt);
            else out.status = T.transform(*ps, *Sp, callbackForm ? viaStream() : *rt);
        } else {
            if (rq.ssForm == "compiled") out.status = T.transform(*Dp, cs, callbackForm ? viaStream() : *rt);
            else if (rq.ssForm == "pi") { if (callbackForm) out.status = T.transform(*Dp, &sink, sinkCallback, sinkFlushCallback); else out.status = T.transform(*Dp, *rt); }
            else { if (callbackForm) out.status = T.transform(*Dp, *Sp, &sink, sinkCallback, sinkFlushCallback); else out.status = T.transform(*Dp, *Sp, *rt); }
        }
        if (cf) { fflush(cf); fclose(cf); cf = nullptr; }
        if (out.status != 0) { const char* e = T.getLastError(); out.err = e ? e : ""; out.errEmpty = out.err.empty(); }
        // --- collect
        if (rq.tgtForm == "filename") { try { out.bytes = readFile(outPath); } catch (...) {} }
        else if (rq.tgtForm == "xercesdom") { if (out.status == 0) { canonDOM(domDoc.get(), out.canon); out.bytes = out.canon; } }
        else if (rq.tgtForm == "sourcetree") { if (out.status == 0) { canonXalan(stDoc, out.canon); out.bytes = out.canon; } }
        else out.bytes = sink.bytes;
    }
    SIM_CATCH_ALL(out)
    out.sinkWrites = sink.writes; out.sinkFlushes = sink.flushes; out.sinkFaults = sink.faultsFired; out.writesAfterFault = sink.writesAfterFault; out.flushedLast = sink.flushedAfterLastWrite; out.chunks = sink.chunks;
    if (rq.wantCanon && out.ok() && out.canon.empty()) { std::string e; out.canon = canonFromBytes(out.bytes, &e); if (out.canon.empty()) out.canon = "NOT-WELL-FORMED:" + e; }
    return out;
}

} // namespace sim
