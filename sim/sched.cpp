// Compiled WITHOUT -fsanitize=thread and WITHOUT -finstrument-functions (see targets-tsan.cmake).
#include "sched.hpp"
#include <xercesc/util/PlatformUtils.hpp>
#include <xercesc/util/XMLMutexMgr.hpp>
#include <linux/futex.h>
#include <sys/syscall.h>
#include <unistd.h>
#include <cstring>
#include <cstdio>
#include <cstdlib>
#include <climits>
#include <dlfcn.h>
#include <cxxabi.h>

namespace simsched {

static const int MAXT = 8;
static Config g_cfg;
static Stats g_st;
static int g_state[MAXT];          // 0 not started, 1 parked/runnable, 2 done
static int g_futex[MAXT];          // 1 = go
static int g_prio[MAXT];
static int g_mainFutex = 0;        // 1 = all tasks done
static int g_started = 0;
static bool g_active = false;
static size_t g_replayIdx = 0, g_cpIdx = 0;
static uint64_t g_rng[2];
static thread_local int t_id = -1;
static thread_local int t_lockDepth = 0;

static inline long futex(int* addr, int op, int val) { return syscall(SYS_futex, addr, op, val, nullptr, nullptr, 0); }
static inline int aload(int* p) { return __atomic_load_n(p, __ATOMIC_SEQ_CST); }
static inline void astore(int* p, int v) { __atomic_store_n(p, v, __ATOMIC_SEQ_CST); }

static uint64_t rnd() {   // xorshift128+
    uint64_t s1 = g_rng[0]; const uint64_t s0 = g_rng[1]; g_rng[0] = s0; s1 ^= s1 << 23; g_rng[1] = s1 ^ s0 ^ (s1 >> 18) ^ (s0 >> 5); return g_rng[1] + s0;
}
// hand-overs are logged into static storage: heap blocks allocated by one task and freed by another would
// themselves look like races to ThreadSanitizer, which cannot see the scheduler's ordering
static const size_t MAXH = 1u << 18;
static uint64_t g_hStep[MAXH]; static int g_hTask[MAXH]; static size_t g_nh = 0;
static void hashHandover(uint64_t step, int task) {
    if (g_nh < MAXH) { g_hStep[g_nh] = step; g_hTask[g_nh] = task; ++g_nh; }
    uint64_t v = step * 31 + (uint64_t)task; const unsigned char* c = (const unsigned char*)&v;
    for (int i = 0; i < 8; ++i) { g_st.scheduleHash ^= c[i]; g_st.scheduleHash *= 0x100000001b3ULL; }
}

bool active() { return g_active; }
int currentTask() { return t_id; }

void start(const Config& cfg) {
    g_cfg = cfg; g_st = Stats(); g_nh = 0;
    for (int i = 0; i < MAXT; ++i) { g_state[i] = 0; g_futex[i] = 0; g_prio[i] = i < (int)cfg.priorities.size() ? cfg.priorities[i] : (MAXT - i); }
    g_mainFutex = 0; g_started = 0; g_replayIdx = 0; g_cpIdx = 0;
    g_rng[0] = cfg.seed | 1; g_rng[1] = cfg.seed * 0x9e3779b97f4a7c15ULL + 77;
    g_active = true;
}

static void park(int me) {
    while (aload(&g_futex[me]) == 0) futex(&g_futex[me], FUTEX_WAIT, 0);
    astore(&g_futex[me], 0);
}
static void wake(int t) { astore(&g_futex[t], 1); futex(&g_futex[t], FUTEX_WAKE, 1); }

// which runnable task should hold the token when `me` gives it up voluntarily (me < 0: nobody runs)
static int pickOther(int me) {
    int n = g_cfg.ntasks, best = -1;
    switch (g_cfg.strategy) {
    case PCT: for (int i = 0; i < n; ++i) if (i != me && g_state[i] == 1 && (best < 0 || g_prio[i] > g_prio[best])) best = i; return best;
    case RandomWalk: { int c[MAXT], k = 0; for (int i = 0; i < n; ++i) if (i != me && g_state[i] == 1) c[k++] = i; return k ? c[rnd() % k] : -1; }
    default: for (int i = 0; i < n; ++i) if (i != me && g_state[i] == 1) return i; return -1;
    }
}

static void handover(int me, int next, bool parkMe) {
    ++g_st.switches; hashHandover(g_st.steps, next);
    wake(next);
    if (parkMe) park(me);
}

void taskBegin(int id) {
    t_id = id; t_lockDepth = 0;
    __atomic_store_n(&g_state[id], 1, __ATOMIC_SEQ_CST);
    __atomic_add_fetch(&g_started, 1, __ATOMIC_SEQ_CST);
    futex(&g_started, FUTEX_WAKE, 1);
    park(id);
}

void taskEnd(int id) {
    if (t_lockDepth > 0) {
        // the task is over and still owns a Xerces mutex: every other task that needs it would wait for ever
        static const char m[] = "simsched: a task ended while holding a Xerces mutex (lock without unlock)\n"; ssize_t r = write(2, m, sizeof m - 1); (void)r; _exit(81);
    }
    g_state[id] = 2;
    int next = -1;
    if (g_cfg.strategy == Replay && g_replayIdx < g_cfg.replay.size() && g_state[g_cfg.replay[g_replayIdx].second] == 1) {
        // a recorded hand-over at task end carries the step at which the task ended
        if (g_cfg.replay[g_replayIdx].first == g_st.steps) next = g_cfg.replay[g_replayIdx++].second;
    }
    if (next < 0) next = pickOther(id);
    t_id = -1;
    if (next >= 0) handover(id, next, false);
    else { astore(&g_mainFutex, 1); futex(&g_mainFutex, FUTEX_WAKE, 1); }
}

void waitAllDone() {
    // wait until every task thread has registered, then give the token to the first one
    for (;;) { int s = aload(&g_started); if (s >= g_cfg.ntasks) break; futex(&g_started, FUTEX_WAIT, s); }
    int first = -1;
    if (g_cfg.strategy == Replay && !g_cfg.replay.empty() && g_cfg.replay[0].first == 0) first = g_cfg.replay[g_replayIdx++].second;
    if (first < 0 || g_state[first] != 1) first = pickOther(-1);
    hashHandover(0, first);
    wake(first);
    while (aload(&g_mainFutex) == 0) futex(&g_mainFutex, FUTEX_WAIT, 0);
}

Stats finish() { g_active = false; Stats r = g_st; for (size_t i = 0; i < g_nh; ++i) r.handovers.emplace_back(g_hStep[i], g_hTask[i]); return r; }

void point(int kind) {
    const int me = t_id;
    if (!g_active || me < 0) return;
    ++g_st.steps;
    switch (kind) { case 0: case 1: ++g_st.allocPoints; break; case 2: ++g_st.ioPoints; break; default: ++g_st.funcPoints; break; }
    if (g_st.steps > g_cfg.stepBudget) { g_st.budgetExceeded = true; return; }
    int next = -1;
    switch (g_cfg.strategy) {
    case Sequential: return;
    case RandomWalk: if (rnd() % g_cfg.switchDen == 0) next = pickOther(me); break;
    case PCT:
        if (g_cpIdx < g_cfg.changePoints.size() && g_st.steps >= g_cfg.changePoints[g_cpIdx]) { ++g_cpIdx; int lo = INT_MAX; for (int i = 0; i < g_cfg.ntasks; ++i) if (g_prio[i] < lo) lo = g_prio[i]; g_prio[me] = lo - 1; }
        { int b = pickOther(me); if (b >= 0 && g_prio[b] > g_prio[me]) next = b; }
        break;
    case Replay:
        if (g_replayIdx < g_cfg.replay.size() && g_cfg.replay[g_replayIdx].first <= g_st.steps) {
            int t = g_cfg.replay[g_replayIdx].second;
            if (g_cfg.replay[g_replayIdx].first == g_st.steps) { ++g_replayIdx; if (t != me && g_state[t] == 1) next = t; }
            else ++g_replayIdx;   // stale entry (the schedule was edited by the minimiser): skip
        }
        break;
    }
    if (next < 0 || next == me) return;
    if (t_lockDepth > 0) { ++g_st.blockedByLock; return; }   // never park a task inside a Xerces critical section
    handover(me, next, true);
}

// ------------------------------------------------------------------ Xerces mutex manager wrapper
namespace {
struct SimMutexMgr : public xercesc::XMLMutexMgr {
    xercesc::XMLMutexMgr* inner;
    explicit SimMutexMgr(xercesc::XMLMutexMgr* i) : inner(i) {}
    xercesc::XMLMutexHandle create(xercesc::MemoryManager* const m) override { return inner->create(m); }
    void destroy(xercesc::XMLMutexHandle h, xercesc::MemoryManager* const m) override { inner->destroy(h, m); }
    void lock(xercesc::XMLMutexHandle h) override { ++t_lockDepth; inner->lock(h); }
    void unlock(xercesc::XMLMutexHandle h) override { inner->unlock(h); --t_lockDepth; }
};
}
void installMutexManager() {
    static bool done = false; if (done) return; done = true;
    xercesc::XMLPlatformUtils::fgMutexMgr = new SimMutexMgr(xercesc::XMLPlatformUtils::fgMutexMgr);
}

// ------------------------------------------------------------------ ThreadSanitizer report capture
struct RawRace { char desc[48]; int nmop; void* tr[2][16]; int ntr[2]; int write[2]; int size[2]; };
static RawRace g_raw[64]; static int g_nraw = 0;

} // namespace simsched

extern "C" {
int __tsan_get_report_data(void* report, const char** description, int* count, int* stack_count, int* mop_count, int* loc_count, int* mutex_count, int* thread_count, int* unique_tid_count, void** sleep_trace, unsigned long trace_size) __attribute__((weak));
int __tsan_get_report_mop(void* report, unsigned long idx, int* tid, void** addr, int* size, int* write, int* atomic, void** trace, unsigned long trace_size) __attribute__((weak));

__attribute__((used, visibility("default"))) void __tsan_on_report(void* rep) {
    using namespace simsched;
    if (!__tsan_get_report_data || !__tsan_get_report_mop || g_nraw >= 64) return;
    const char* desc = nullptr; int count = 0, sc = 0, mc = 0, lc = 0, muc = 0, tc = 0, utc = 0; void* sleep[4] = { 0 };
    __tsan_get_report_data(rep, &desc, &count, &sc, &mc, &lc, &muc, &tc, &utc, sleep, 4);
    RawRace& r = g_raw[g_nraw]; memset(&r, 0, sizeof r); strncpy(r.desc, desc ? desc : "?", sizeof r.desc - 1); r.nmop = mc > 2 ? 2 : mc;
    for (int i = 0; i < r.nmop; ++i) {
        int tid = 0, at = 0; void* addr = nullptr; memset(r.tr[i], 0, sizeof r.tr[i]);
        __tsan_get_report_mop(rep, (unsigned long)i, &tid, &addr, &r.size[i], &r.write[i], &at, r.tr[i], 16);
        int n = 0; while (n < 16 && r.tr[i][n]) ++n; r.ntr[i] = n;
    }
    ++g_nraw;
}

// compiler-inserted function-entry hooks of libxalan-c (clang -finstrument-functions-after-inlining)
__attribute__((used, visibility("default"), no_instrument_function)) void __cyg_profile_func_enter(void*, void*) { if (simsched::g_active && simsched::g_cfg.funcPoints) simsched::point(3); }
__attribute__((used, visibility("default"), no_instrument_function)) void __cyg_profile_func_exit(void*, void*) {}
}

namespace simsched {

static std::string normSym(const std::string& in) {
    std::string s; int depth = 0;
    for (size_t i = 0; i < in.size(); ++i) { char c = in[i]; if (c == '<') { if (i >= 8 && in.compare(i - 8, 8, "operator") == 0) { s += c; continue; } ++depth; continue; } if (c == '>') { if (depth > 0) { --depth; continue; } s += c; continue; } if (depth == 0) s += c; }
    size_t p = s.find('('); if (p != std::string::npos) s = s.substr(0, p);
    for (const char* ns : { "xalanc_1_12::", "xalanc::", "xercesc_3_2::" }) { size_t q; while ((q = s.find(ns)) != std::string::npos) s.erase(q, strlen(ns)); }
    size_t sp = s.rfind(' '); if (sp != std::string::npos && s.find("operator") == std::string::npos) s = s.substr(sp + 1);
    return s;
}
static std::string frames(void* const* tr, int n, int want, bool* anyXalan) {
    std::string r; int got = 0; std::string last;
    for (int i = 0; i < n && got < want; ++i) {
        Dl_info di; if (!dladdr((char*)tr[i] - 1, &di) || !di.dli_fname) continue;
        bool in = strstr(di.dli_fname, "libxalan") != nullptr; if (!in) continue; if (anyXalan) *anyXalan = true;
        std::string s = "?"; if (di.dli_sname) { int st = 0; char* d = abi::__cxa_demangle(di.dli_sname, nullptr, nullptr, &st); s = normSym(st == 0 && d ? d : di.dli_sname); free(d); }
        if (s == last) continue; last = s; if (got) r += "<"; r += s; ++got;
    }
    return r.empty() ? "no-xalan-frame" : r;
}

std::vector<RaceReport> takeRaces() {
    std::vector<RaceReport> out;
    for (int k = 0; k < g_nraw; ++k) {
        RawRace& r = g_raw[k]; RaceReport rr; rr.desc = r.desc;
        bool x0 = false, x1 = false;
        std::string a = frames(r.tr[0], r.ntr[0], 2, &x0), b = r.nmop > 1 ? frames(r.tr[1], r.ntr[1], 2, &x1) : std::string("-");
        if (b < a) std::swap(a, b);
        rr.sig = std::string(r.desc) + ":" + a + "~" + b;
        rr.detail = std::string(r.desc) + ": " + (r.write[0] ? "write" : "read") + " of " + std::to_string(r.size[0]) + " at [" + frames(r.tr[0], r.ntr[0], 6, nullptr) + "] vs " + (r.write[1] ? "write" : "read") + " at [" + (r.nmop > 1 ? frames(r.tr[1], r.ntr[1], 6, nullptr) : "-") + "]";
        if (!x0 && !x1) rr.sig = std::string(r.desc) + ":outside-libxalan";
        out.push_back(rr);
    }
    g_nraw = 0;
    return out;
}

} // namespace simsched
