// C03 — no input crashes, hangs or corrupts memory; every failure is a reported error; the transformer stays usable.
// One run = one long-lived transformer + XPath evaluators driven by <= 6 ops, each reading valid inputs through
// sources with a fault script and writing to a sink with a fault script; after every op a known-good transformation
// on the same transformer must still work (bounded liveness once faults stop).
#include "xform.hpp"
#include <xalanc/XPath/XPathEvaluator.hpp>
#include <xalanc/XPath/XObject.hpp>
#include <xalanc/XPath/NodeRefList.hpp>
#include <xalanc/XalanTransformer/XalanCAPI.h>
#include <xalanc/XPathCAPI/XPathCAPI.h>
#include <sstream>

using namespace sim;
using namespace xalanc;

namespace {

const char* GOOD_DOC = "<?xml version=\"1.0\"?><r><i v=\"3\" k=\"a\">x</i><i v=\"4\" k=\"b\">y</i><i v=\"5\" k=\"a\">z</i></r>";
const char* GOOD_SS = "<?xml version=\"1.0\"?><xsl:stylesheet version=\"1.0\" xmlns:xsl=\"http://www.w3.org/1999/XSL/Transform\"><xsl:key name=\"k\" match=\"i\" use=\"@k\"/><xsl:template match=\"/\"><o s=\"{sum(//i/@v)}\"><xsl:for-each select=\"//i\"><xsl:sort select=\"@v\" data-type=\"number\" order=\"descending\"/><xsl:number/>:<xsl:value-of select=\"count(key('k',@k))\"/>:<xsl:value-of select=\"format-number(@v div 3,'0.00')\"/>;</xsl:for-each></o></xsl:template></xsl:stylesheet>";

const std::vector<std::string>& exprPool() {
    static const std::vector<std::string> e = {
        "count(//*)", "//*[@k='k1']/@id", "sum(//@v) div count(//@v)", "string(/doc/*[2])", "//*[position() mod 2 = 0][last()]/@id",
        "concat(name(/*), '-', count(//comment()), '-', count(//processing-instruction()))", "/doc/descendant::*[@v > 10][1]/following-sibling::*",
        "translate(substring(string(//*[@t][1]/@t), 1, 8), ' ', '_')", "boolean(//p1:a) or not(//zzz)", "number('12.5') * -3 mod 4",
        "id('n3')/ancestor-or-self::*/@id", "normalize-space(/doc) = ''", "//*[@v][not(@v < preceding::*/@v)]/@v", "(//*)[last()]/preceding::*[3]/@id",
        "floor(-1.5) + ceiling(1.5) + round(2.5)", "-9223372036854775808 mod -1", "round(1000000000000000000000000) + floor(-1000000000000000000000000)", "substring('abcdef', -1000000000000000000000, 1000000000000000000000000)", "starts-with(//@id, 'n') and contains(//@rk, '1')", "//text()[string-length() > 3][1]", "//@*[name() = 'k'][. = 'k2']/../@id",
        "1000000000000000000000000000000000000000000000000000000000000000000000000000000000000000000 * 10", "substring-after('a:b:c', ':')", "lang('en')", "//*[@xml:lang]/@xml:lang",
    };
    return e;
}

struct OpRes { std::string name; int status = 0; bool threw = false; std::string exc, out, err; bool errEmpty = false; bool faultFired = false; };

struct C03 : public Driver {
    const char* property() const override { return "C03"; }
    void init() override { xalanInitOnce(); XalanXPathAPIInitialize(); }

    // an expression from the fixed pool, or one drawn from the XPath grammar (type-correct, or "wild": wrong arity, unknown names, extreme literals)
    static std::string pickExpr(Rng& g, const std::vector<std::string>& names, bool bigDoc = false) {
        unsigned k = (unsigned)g.below(4); if (k == 0 || bigDoc) return g.pick(exprPool());      // several reverse-axis steps over a 200-deep chain take minutes: slow, not hung
        ExprGen eg(g, k >= 2, names); return exprPlain(eg.make((int)g.range(2, 4)).first);
    }
    static Json srcFaultAt(Rng& g, const std::string& bytes, bool destructive) {
        SrcFault f;
        if (g.chance(2, 3)) { f.maxChunk = (unsigned)g.pick(std::vector<int>{ 1, 2, 3, 7, 64, 511, 512, 513 }); f.chunkSeed = g.next() >> 12; }
        if (destructive && !bytes.empty()) {
            static const std::vector<std::string> kinds = { "truncate", "truncate", "flip", "flip", "zero", "tear", "dup", "swap", "readerr" };
            f.kind = g.pick(kinds);
            size_t n = bytes.size(); size_t pos = (size_t)g.below(n);
            if (g.chance(3, 10)) {   // snap to a structure boundary
                unsigned how = (unsigned)g.below(3);
                if (how == 0) { size_t q = bytes.find('<', pos); if (q != std::string::npos && q + 1 < n) pos = q + 1; }
                else if (how == 1) { for (size_t q = pos; q < n; ++q) if (((unsigned char)bytes[q] & 0xC0) == 0x80) { pos = q; break; } }
                else pos = std::min(n - 1, (pos / 512) * 512 + (size_t)g.below(3));
            }
            f.a = pos; f.b = f.kind == "flip" ? g.below(8) : 1 + g.below(40);
        }
        return f.toJson();
    }

    Json makePlan(uint64_t verifSeed, uint64_t run, const std::string& tier) override {
        uint64_t seed = runSeed(verifSeed, "C03", run);
        Rng root(seed); Rng g = root.fork("gen"), gf = root.fork("faults");
        Json p = Json::object(); p["property"] = "C03"; p["run"] = (long long)run; p["seed"] = hex64(seed); p["tier"] = tier;
        DocCfg dc; dc.maxNodes = (int)g.range(8, 60); dc.dtd = g.chance(1, 3); dc.ns = g.chance(3, 4); dc.manyNames = g.chance(1, 6);
        dc.deep = g.chance(1, 25); dc.longName = g.chance(1, 25); dc.bigNum = g.chance(1, 6); dc.ssPI = false;
        if (dc.manyNames) dc.maxNodes = 90;
        GenDoc d = genDoc(g, dc);
        SSCfg sc; auto allowed = featuresExcept({}); sc.on = pickFeatures(g, allowed, 3, 9);
        if (dc.manyNames) { sc.on.insert("num-nocount"); sc.on.insert("num-any"); }
        if (dc.bigNum) { sc.on.insert("bigfmt"); sc.on.insert("valnum"); }
        if (g.chance(1, 3)) sc.on.insert("padsupp");
        const bool gated = g.chance(1, 3); if (gated) { sc.on.insert("gate"); if (g.fork("wp").chance(1, 2)) sc.on.insert("withparam"); if (g.chance(1, 2)) sc.on.insert("num-gate"); if (g.chance(1, 2)) sc.on.insert("sort-gate"); }
        sc.dfVariant = (int)g.below(3); sc.keyVariant = (int)g.below(3);
        { unsigned m = (unsigned)g.below(12); if (m == 0) { sc.method = ""; sc.rootName = "html"; } else if (m == 1) sc.method = "html"; else if (m == 2) sc.method = "text"; else if (m == 3) { sc.method = ""; } }   // output method: xml mostly; html, text, and the switch to html after the first element
        const bool noslash = g.chance(1, 12); if (noslash) { sc.sysIdStyle = "noslash"; sc.useInclude = true; }
        { static const std::vector<std::string> langs = { "de", "fr", "en" }; static const std::vector<std::string> cases = { "", "upper-first", "lower-first" }; sc.sortLang = g.pick(langs); sc.sortCase = g.pick(cases); }
        sc.useImport = g.chance(1, 3); sc.useInclude = g.chance(1, 4); sc.docFn = g.chance(1, 3); sc.stripSpace = g.chance(1, 4); sc.dupExtPrefix = g.chance(1, 6);
        static const std::vector<std::string> encs = { "UTF-8", "UTF-8", "UTF-16", "ISO-8859-1", "US-ASCII", "windows-1252" };
        sc.encoding = g.pick(encs); sc.cdataElems = g.chance(1, 6);
        static const std::vector<std::string> orders = { "doc", "rk", "rev" }; sc.order = g.pick(orders);
        GenSS s = genStylesheet(g, sc, d);
        p["doc"] = d.xml; p["xsl"] = s.xsl; if (noslash) p["ss_sysid"] = "file:ss.xsl";     // a base URI with a scheme and no '/' in its path
        Json res = Json::object(); for (auto& kv : s.resources) res[kv.first] = kv.second; p["resources"] = res;
        Json feats = Json::array(); for (auto& f : s.features) feats.push(f); p["features"] = feats;
        // clock
        Json ck = Json::object(); static const std::vector<std::string> modes = { "advance", "advance", "coarse", "stall", "minus1", "back" };
        ck["mode"] = g.pick(modes); ck["delta"] = (long long)g.range(1, 1000); ck["every"] = (long long)g.range(2, 40); ck["backAt"] = (long long)g.range(1, 400); ck["backBy"] = (long long)g.range(1, 100000);
        p["clock"] = ck;
        Json ops = Json::array(); int n = (int)g.range(1, 6);
        for (int i = 0; i < n; ++i) {
            Json o = Json::object(); unsigned r = (unsigned)gf.below(20);
            bool destructive = gf.chance(3, 4);
            if (r < 11) {
                o["op"] = "transform";
                static const std::vector<std::string> sf = { "stream", "stream", "inputsource", "parsed", "parsed-xerces", "wrapper", "builder", "stwrapper" };
                static const std::vector<std::string> ssf = { "stream", "stream", "inputsource", "compiled" };
                static const std::vector<std::string> tf = { "callback", "callback", "ostream", "cfile", "writer" };
                o["src"] = gf.pick(sf); o["ss"] = gf.pick(ssf); o["target"] = gf.pick(tf);
                o["buf"] = (long long)gf.pick(std::vector<int>{ 1, 2, 3, 5, 16, 511, 512, 513, 4096 }); o["tblock"] = (long long)gf.pick(std::vector<int>{ 1, 2, 7, 64, 1024 });
                unsigned which = (unsigned)gf.below(10);   // where the (single) destructive fault lands
                o["docFault"] = srcFaultAt(gf, d.xml, destructive && which < 4);
                o["xslFault"] = srcFaultAt(gf, s.xsl, destructive && which >= 4 && which < 7);
                if (destructive && which >= 7 && which < 9) { SinkFault sf2; static const std::vector<std::string> sk = { "short", "throw", "bad", "flushfail" }; sf2.kind = gf.pick(sk); sf2.at = 1 + gf.below(1000); o["sinkFault"] = sf2.toJson(); }
                if (destructive && which == 9 && !s.resources.empty()) { auto it = s.resources.begin(); std::advance(it, gf.below(s.resources.size())); Json rf = Json::object(); rf["name"] = it->first; static const std::vector<std::string> rk = { "missing", "throwing", "corrupt" }; rf["kind"] = gf.pick(rk); rf["fault"] = srcFaultAt(gf, it->second, true); o["resFault"] = rf; }
            } else if (r < 13) { o["op"] = "compile"; o["xslFault"] = srcFaultAt(gf, s.xsl, destructive); }
            else if (r < 15) { o["op"] = "parse"; o["xerces"] = gf.chance(1, 2); o["docFault"] = srcFaultAt(gf, d.xml, destructive); }
            else if (r < 17) { o["op"] = "param-expr"; std::string e = pickExpr(gf, d.names, dc.deep || dc.manyNames); SrcFault f = SrcFault::fromJson(srcFaultAt(gf, e, destructive)); o["expr"] = applySrcFault(e, f); o["faulted"] = f.destructive();
                if (destructive && gf.fork("empty-expr").chance(1, 10)) { o["expr"] = ""; o["faulted"] = true; }
                // a parameter value that makes a lazily evaluated global variable abort the transformation part-way
                if (gated && gf.chance(2, 3)) { unsigned q = (unsigned)gf.below(3); o["expr"] = q == 0 ? std::string("'abort'") : q == 1 ? std::string("'badkey'") : "'" + d.ids[gf.below(std::min<size_t>(d.ids.size(), 14))] + "'"; o["faulted"] = true; } }
            else if (r < 19) { o["op"] = gf.chance(1, 2) ? "xpath-eval" : "xpath-capi"; std::string e = pickExpr(gf, d.names, dc.deep || dc.manyNames); SrcFault f = SrcFault::fromJson(srcFaultAt(gf, e, destructive)); o["expr"] = applySrcFault(e, f); o["faulted"] = f.destructive(); o["docFault"] = srcFaultAt(gf, d.xml, destructive && gf.chance(1, 3)); { Rng ge = gf.fork("capi-enc"); static const std::vector<std::string> ce = { "UTF-16", "ISO-8859-1", "x-sim-no-such-encoding", "UTF-16", "US-ASCII" }; if (ge.chance(1, 4)) o["capiEnc"] = ge.pick(ce); }
                { Rng gx = gf.fork("xlia"); o["xercesLiaison"] = gx.chance(1, 3); o["destroyDoc"] = gx.chance(1, 2); o["destroyByDom"] = gx.chance(1, 2); } }
            else { o["op"] = "capi-transform"; o["docFault"] = srcFaultAt(gf, d.xml, destructive && gf.chance(1, 2)); o["xslFault"] = srcFaultAt(gf, s.xsl, destructive && gf.chance(1, 2)); o["toHandler"] = gf.chance(1, 2);
                if (gated && gf.chance(1, 2)) { o["abortParam"] = gf.chance(1, 2) ? "'abort'" : "'badkey'"; o["faulted"] = true; } }      // the transformation itself fails part-way, after some output
            ops.push(o);
        }
        p["ops"] = ops;
        return p;
    }

    // -------------------------------------------------------------------------------------------
    static bool destructiveOp(const Json& o) {
        for (const char* k : { "docFault", "xslFault" }) if (o.has(k) && !o.at(k).str("kind").empty()) return true;
        if (o.has("sinkFault") && !o.at("sinkFault").str("kind").empty()) return true;
        if (o.has("resFault")) return true;
        if (o.boolean("faulted")) return true;
        return false;
    }
    static Json stripFaults(const Json& o, bool keepBenign) {
        Json c = o;
        for (const char* k : { "docFault", "xslFault" }) if (c.has(k)) { Json& f = c[k]; f["kind"] = ""; if (!keepBenign) { f["chunk"] = 0; } }
        if (c.has("sinkFault")) c["sinkFault"] = SinkFault().toJson();
        if (c.has("resFault")) { Json n = Json::object(); for (auto& kv : c.o) if (kv.first != "resFault") n[kv.first] = kv.second; c = n; }
        if (!keepBenign) { c["buf"] = 512; c["tblock"] = 1024; }
        return c;
    }

    OpRes doTransformOp(XEnv& env, const Json& plan, const Json& o, Result& res, bool count) {
        OpRes r; r.name = "transform:" + o.str("src") + ">" + o.str("ss") + ">" + o.str("target");
        XReq rq; rq.doc = plan.str("doc"); rq.xsl = plan.str("xsl"); rq.srcForm = o.str("src", "stream"); rq.ssForm = o.str("ss", "stream"); rq.tgtForm = o.str("target", "callback");
        rq.docFault = SrcFault::fromJson(o.at("docFault")); rq.xslFault = SrcFault::fromJson(o.at("xslFault")); rq.sinkFault = SinkFault::fromJson(o.at("sinkFault"));
        rq.bufSize = (unsigned)o.num("buf", 512); rq.tblock = (unsigned)o.num("tblock", 1024); rq.ssSysId = plan.str("ss_sysid");
        env.fs.faults.clear(); env.fs.missing.clear(); env.fs.throwing.clear();
        if (o.has("resFault")) { const Json& rf = o.at("resFault"); std::string k = rf.str("kind"), nm = rf.str("name"); if (k == "missing") env.fs.missing.insert(nm); else if (k == "throwing") env.fs.throwing.insert(nm); else env.fs.faults[nm] = SrcFault::fromJson(rf.at("fault")); if (count) res.count("fault:res-" + k); }
        SimSink sink; const XalanCompiledStylesheet* cs = nullptr; bool compiledHere = false;
        if (rq.ssForm == "compiled") {
            // compile from the (possibly faulted) stylesheet bytes first; a failure there is the op's outcome
            std::string seen = applySrcFault(rq.xsl, rq.xslFault); SimIStream is(seen, rq.xslFault, &env.fs.stats); XSLTInputSource in(&is, env.manager()); in.setSystemId(xs(rq.ssSysId.empty() ? std::string(SIM_BASE) + "ss.xsl" : rq.ssSysId, env.manager()).c_str());
            env.fs.put("ss.xsl", rq.xsl);
            XformOut tmp;
            try { int st = env.T->compileStylesheet(in, cs); if (st != 0) { r.status = st; const char* e = env.T->getLastError(); r.err = e ? e : ""; r.errEmpty = r.err.empty(); return r; } compiledHere = true; }
            SIM_CATCH_ALL(tmp)
            if (tmp.threw) { r.threw = true; r.exc = tmp.exc; return r; }
        }
        XformOut out = runTransform(env, rq, sink, nullptr, cs);
        if (compiledHere && cs) env.T->destroyStylesheet(cs);
        r.status = out.status; r.threw = out.threw; r.exc = out.exc; r.out = out.bytes; r.err = out.err; r.errEmpty = out.errEmpty; r.faultFired = out.sinkFaults > 0;
        if (count) {
            if (!rq.docFault.kind.empty()) res.count("fault:src-" + rq.docFault.kind);
            if (!rq.xslFault.kind.empty()) res.count("fault:src-" + rq.xslFault.kind);
            if (rq.docFault.maxChunk || rq.xslFault.maxChunk) res.count("fault:src-short-read");
            if (out.sinkFaults) res.count("fault:sink-" + rq.sinkFault.kind);
            if (rq.tgtForm == "writer") res.count("fault:buf-sizes");
            if (!rq.docFault.kind.empty()) { const std::string& b = rq.doc; size_t a = b.empty() ? 0 : rq.docFault.a % b.size(); if (a > 0 && b[a - 1] == '<') res.count("probe:fault-inside-markup"); if (a < b.size() && ((unsigned char)b[a] & 0xC0) == 0x80) res.count("probe:fault-inside-utf8-sequence"); }
        }
        return r;
    }

    OpRes doOp(XEnv& env, const Json& plan, const Json& o, Result& res, bool count) {
        std::string k = o.str("op"); OpRes r; r.name = k; xercesc::MemoryManager& mm = env.manager();
        if (k == "transform") return doTransformOp(env, plan, o, res, count);
        XformOut ex;
        try {
            if (k == "compile") {
                SrcFault f = SrcFault::fromJson(o.at("xslFault")); std::string seen = applySrcFault(plan.str("xsl"), f); SimIStream is(seen, f, &env.fs.stats);
                XSLTInputSource in(&is, mm); in.setSystemId(xs(plan.str("ss_sysid", std::string(SIM_BASE) + "ss.xsl"), mm).c_str()); env.fs.put("ss.xsl", plan.str("xsl"));
                const XalanCompiledStylesheet* cs = nullptr; r.status = env.T->compileStylesheet(in, cs);
                if (r.status != 0) { const char* e = env.T->getLastError(); r.err = e ? e : ""; r.errEmpty = r.err.empty(); } else if (cs) env.T->destroyStylesheet(cs);
                if (count && !f.kind.empty()) res.count("fault:src-" + f.kind);
            } else if (k == "parse") {
                SrcFault f = SrcFault::fromJson(o.at("docFault")); std::string seen = applySrcFault(plan.str("doc"), f); SimIStream is(seen, f, &env.fs.stats);
                XSLTInputSource in(&is, mm); in.setSystemId(xs(std::string(SIM_BASE) + "doc.xml", mm).c_str());
                const XalanParsedSource* ps = nullptr; r.status = env.T->parseSource(in, ps, o.boolean("xerces"));
                if (r.status != 0) { const char* e = env.T->getLastError(); r.err = e ? e : ""; r.errEmpty = r.err.empty(); } else if (ps) env.T->destroyParsedSource(ps);
                if (count && !f.kind.empty()) res.count("fault:src-" + f.kind);
            } else if (k == "param-expr") {
                // a (possibly corrupted) top-level parameter expression, then a transformation that uses it
                env.T->setStylesheetParam(xs("P1", mm), xs(o.str("expr"), mm));
                XReq rq; rq.doc = plan.str("doc"); rq.xsl = plan.str("xsl"); SimSink sink; env.fs.faults.clear(); env.fs.missing.clear(); env.fs.throwing.clear();
                // through a compiled stylesheet that this transformer keeps: state left behind by an aborted run is most likely to be
                // keyed by objects of that very stylesheet
                const XalanCompiledStylesheet* cs = nullptr;
                if (env.sheets.empty()) { env.fs.put("ss.xsl", rq.xsl); SimIStream is(rq.xsl, SrcFault()); XSLTInputSource in(&is, mm); in.setSystemId(xs(std::string(SIM_BASE) + "ss.xsl", mm).c_str()); if (env.T->compileStylesheet(in, cs) == 0 && cs) env.sheets.push_back(cs); else cs = nullptr; } else cs = env.sheets[0];
                if (cs) rq.ssForm = "compiled";
                XformOut out = runTransform(env, rq, sink, nullptr, cs);
                env.T->clearStylesheetParams();
                r.status = out.status; r.threw = out.threw; r.exc = out.exc; r.out = out.bytes; r.err = out.err; r.errEmpty = out.errEmpty;
                if (count && o.boolean("faulted")) res.count("fault:expr-corrupt");
            } else if (k == "xpath-eval") {
                SrcFault f = SrcFault::fromJson(o.at("docFault")); std::string seen = applySrcFault(plan.str("doc"), f);
                QuietErrorHandler eh;
                // by its wrapper, or (Xerces liaison, every other time) by the Xerces document it wraps
                struct GiveBack { bool byDom; void operator()(XalanSourceTreeParserLiaison& l, XalanDocument* d) const { l.destroyDocument(d); }
                    void operator()(XercesParserLiaison& l, XalanDocument* d) const { const xercesc::DOMDocument* x = byDom ? l.mapToXercesDocument(d) : nullptr; if (x) l.destroyDocument(const_cast<xercesc::DOMDocument*>(x)); else l.destroyDocument(d); } } giveBack{ o.boolean("destroyByDom") };
                auto body = [&](auto& lia, auto& sup) {
                lia.setErrorHandler(&eh);
                SimInputSource src(seen, f, std::string(SIM_BASE) + "doc.xml", &env.fs.stats);
                XalanDocument* d = lia.parseXMLStream(src, xs(std::string(SIM_BASE) + "doc.xml", mm));
                if (!d || eh.failed) { r.status = -1; r.err = eh.msg.empty() ? "parse failed" : eh.msg; }
                else {
                    XPathEvaluator ev(mm); XalanNode* ctx = d->getDocumentElement() ? (XalanNode*)d->getDocumentElement() : (XalanNode*)d;
                    // a compiled XPath the caller keeps: whatever happens to later expressions of the same evaluator, it must go on giving the same answer
                    XPath* kept = ev.createXPath(xs("concat(count(//*), '-', name(/*), '-', count(//@k[. = 'k1']), '-', string(12.5 + 1))", mm).c_str()); std::string keptBefore, keptAfter;
                    { XObjectPtr v = ev.evaluate(sup, ctx, *kept, d->getDocumentElement()); if (!v.null()) keptBefore = toUtf8(v->str(ev.getExecutionContext())); }
                    {   // the operation's own expression, compiled first and then evaluated from the string as well (either may fail)
                        XformOut ign; try { XPath* xp = ev.createXPath(xs(o.str("expr"), mm).c_str()); ev.destroyXPath(xp); } SIM_CATCH_ALL(ign)
                        try { XObjectPtr v = ev.evaluate(sup, ctx, *kept, d->getDocumentElement()); if (!v.null()) keptAfter = toUtf8(v->str(ev.getExecutionContext())); } SIM_CATCH_ALL(ign)
                        if (keptAfter != keptBefore) res.violate("kept-xpath-changed", ign.threw ? "after-failed-create" : "after-create", "a compiled XPath kept by the caller evaluated to [" + keptBefore + "] before and [" + keptAfter + "] after createXPath() of [" + o.str("expr").substr(0, 80) + "]");
                    }
                    {   // the returned object is only valid until the next evaluation (documented), so scope it
                        XObjectPtr v = ev.evaluate(sup, ctx, xs(o.str("expr"), mm).c_str(), d->getDocumentElement());
                        if (!v.null()) r.out = toUtf8(v->str(ev.getExecutionContext()));
                    }
                    NodeRefList nl(mm); ev.selectNodeList(nl, sup, ctx, xs("//*", mm).c_str(), d->getDocumentElement()); r.out += "|" + std::to_string(nl.getLength());
                    ev.destroyXPath(kept);
                }
                if (d && o.boolean("destroyDoc")) giveBack(lia, d);      /* the caller gives the document back before the liaison goes away */
                };
                // the evaluator over the native source tree, or over a Xerces DOM the Xerces liaison parsed and wraps itself
                if (o.boolean("xercesLiaison")) { XercesParserLiaison lia(mm); XercesDOMSupport sup(lia); body(lia, sup); if (count) res.count("probe:xpath-over-xerces-liaison"); }
                else { XalanSourceTreeParserLiaison lia(mm); XalanSourceTreeDOMSupport sup(lia); body(lia, sup); }
                if (count && (o.boolean("faulted") || !f.kind.empty())) res.count("fault:expr-corrupt");
            } else if (k == "xpath-capi") {
                XalanXPathEvaluatorHandle h = nullptr; int st = XalanCreateXPathEvaluator(&h);
                if (st == 0) {
                    SrcFault f = SrcFault::fromJson(o.at("docFault")); std::string seen = applySrcFault(plan.str("doc"), f);
                    // NUL bytes would end the C string early: a legitimate input as far as the API is concerned
                    const std::string enc = o.str("capiEnc", "UTF-8");      /* the encoding the caller says the expression is in (the kept expression below is always UTF-8) */
                    int b = 0; st = XalanEvaluateXPathExpressionAsBoolean(h, o.str("expr").c_str(), enc.c_str(), seen.c_str(), &b);
                    r.status = st; r.out = std::to_string(b); if (st != 0) r.err = "code " + std::to_string(st);
                    XalanXPathHandle keptH = nullptr; int b0 = -1, b1 = -1; int stK = XalanCreateXPath(h, "count(/*) = 1 and not(/nosuch)", "UTF-8", &keptH);
                    if (stK == 0) XalanEvaluateXPathAsBoolean(h, keptH, GOOD_DOC, &b0);
                    XalanXPathHandle xh = nullptr; int st2 = XalanCreateXPath(h, o.str("expr").c_str(), enc.c_str(), &xh);
                    if (st2 == 0) { int b2 = 0; XalanEvaluateXPathAsBoolean(h, xh, plan.str("doc").c_str(), &b2); XalanDestroyXPath(h, xh); }
                    if (stK == 0) { int stE = XalanEvaluateXPathAsBoolean(h, keptH, GOOD_DOC, &b1); if (stE != 0 || b0 != b1) res.violate("kept-xpath-changed", st2 == 0 ? "capi:after-create" : "capi:after-failed-create", "a compiled XPath kept through the C API gave " + std::to_string(b0) + " before and " + std::to_string(b1) + " (status " + std::to_string(stE) + ") after XalanCreateXPath of [" + o.str("expr").substr(0, 80) + "]"); XalanDestroyXPath(h, keptH); }
                    XalanDestroyXPathEvaluator(h);
                } else { r.status = st; r.err = "cannot create evaluator"; }
                if (count && o.boolean("faulted")) res.count("fault:expr-corrupt");
            } else if (k == "capi-transform") {
                SrcFault fd = SrcFault::fromJson(o.at("docFault")), fx = SrcFault::fromJson(o.at("xslFault"));
                std::string ds = applySrcFault(plan.str("doc"), fd), xsn = applySrcFault(plan.str("xsl"), fx);
                XalanHandle h = CreateXalanTransformer();
                if (!h) { r.status = -1; r.err = "no handle"; }
                else {
                    ((XalanTransformer*)h)->setEntityResolver(env.resolver.get()); env.fs.put("ss.xsl", plan.str("xsl"));
                    XalanCSSHandle css = nullptr; XalanPSHandle psh = nullptr;
                    int st = XalanCompileStylesheetFromStream(xsn.c_str(), (unsigned long)xsn.size(), h, &css);
                    if (st == 0) st = XalanParseSourceFromStream(ds.c_str(), (unsigned long)ds.size(), h, &psh);
                    if (st == 0 && o.has("abortParam")) XalanSetStylesheetParam("P1", o.str("abortParam").c_str(), h);
                    if (st == 0) {
                        if (o.boolean("toHandler")) { SimSink sink; st = XalanTransformToHandlerPrebuilt(psh, css, h, &sink, sinkCallback, sinkFlushCallback); r.out = sink.bytes; }
                        else { char* outp = nullptr; st = XalanTransformToDataPrebuilt(psh, css, &outp, h); if (st == 0 && outp) { r.out = outp; XalanFreeData(outp); } }
                    }
                    r.status = st; if (st != 0) { const char* e = XalanGetLastError(h); r.err = e ? e : ""; r.errEmpty = r.err.empty(); }
                    if (psh) XalanDestroyParsedSource(psh, h); if (css) XalanDestroyCompiledStylesheet(css, h);
                    DeleteXalanTransformer(h);
                }
                if (count && !fd.kind.empty()) res.count("fault:src-" + fd.kind); if (count && !fx.kind.empty()) res.count("fault:src-" + fx.kind);
            }
        }
        SIM_CATCH_ALL(ex)
        if (ex.threw) { r.threw = true; r.exc = ex.exc; }
        return r;
    }

    void execute(const Json& plan, Result& res, Trace& tr) override {
        std::vector<std::string> leakSites; uint64_t leaked = runPlan(plan, res, tr, false, leakSites);
        if (leaked) {
            // deterministic re-execution with allocation backtraces to attribute the blocks still outstanding
            Result r2; Trace t2; leakSites.clear(); runPlan(plan, r2, t2, true, leakSites);
            bool xalan = false; std::string sites;
            for (auto& s : leakSites) { if (s != "no-xalan-frame" && s.find("@xerces") == std::string::npos) xalan = true; sites += " site[" + s + "]"; }
            if (xalan || leakSites.empty()) res.violate("leak", "blocks-after-destruction", std::to_string(leaked) + " blocks still outstanding after the transformer's destructor in a run without refused allocations;" + sites);
            else res.count("probe:leak-inside-xerces-only");
            if (getenv("C03_SITES")) fprintf(stderr, "SITES leaked=%llu%s\n", (unsigned long long)leaked, sites.c_str());
        }
    }

    // returns the number of blocks outstanding after destruction (0 when an allocation was refused)
    uint64_t runPlan(const Json& plan, Result& res, Trace& tr, bool record, std::vector<std::string>& leakSites) {
        const Json& ck = plan.at("clock");
        auto setClock = [&]() { g_clock.configure(ck.str("mode", "advance"), ck.num("delta", 1), ck.num("every", 7), ck.num("backAt"), ck.num("backBy")); };
        // reference for the known-good follow-up: a fresh transformer, plain clock
        std::string goodRef;
        { XEnv e0; XReq rq; rq.doc = GOOD_DOC; rq.xsl = GOOD_SS; SimSink s; XformOut o = runTransform(e0, rq, s); if (!o.ok()) { res.harness("known-good transformation fails on a fresh transformer: " + o.err); return 0; } goodRef = o.bytes; }
        SimMemoryManager mm; mm.budget = 512u << 20; SimMemoryManager::recordSites() = record;
        {
            XEnv env(&mm);
            for (auto& kv : plan.at("resources").o) env.fs.put(kv.first, kv.second.s);
            const Json& ops = plan.at("ops");
            for (size_t i = 0; i < ops.a.size(); ++i) {
                const Json& o = ops.a[i]; bool destr = destructiveOp(o);
                // dry run of the same op without faults and perturbations on a fresh transformer (advancing clock)
                g_clock.reset();
                OpRes dry; { XEnv e1; for (auto& kv : plan.at("resources").o) e1.fs.put(kv.first, kv.second.s); Json plain = stripFaults(o, false); dry = doOp(e1, plan, plain, res, false); }
                setClock();
                uint64_t c0 = g_clock.calls;
                OpRes r = doOp(env, plan, o, res, true);
                res.count("simclock_ticks", (int64_t)(g_clock.calls - c0));
                res.count("op:" + o.str("op")); res.count(std::string("outcome:") + (r.threw ? "exception" : r.status == 0 ? "success" : "error-status"));
                res.tag(o.str("op") + "|" + (destr ? "destructive" : "benign") + "|" + (r.threw ? "exception:" + r.exc : r.status == 0 ? "success" : "error"));
                if (ck.str("mode") != "advance") res.count("fault:clock-" + ck.str("mode"));
                tr.ev("op" + std::to_string(i) + " " + r.name + " st=" + std::to_string(r.status) + " threw=" + r.exc + " out=" + hex64(fnvStr(r.out)) + " errEmpty=" + std::to_string(r.errEmpty));
                std::string sigOp = o.str("op");
                // oracle 2: non-zero status comes with a message
                if (!r.threw && r.status != 0 && r.errEmpty) res.violate("empty-error", sigOp, "non-zero status " + std::to_string(r.status) + " with an empty error message in op " + r.name);
                // an empty string is not an XPath expression: a parameter the stylesheet declares cannot be given it and the transformation succeed
                if (sigOp == "param-expr" && o.str("expr").empty() && !r.threw && r.status == 0 && plan.str("xsl").find("<xsl:param name=\"P1\"") != std::string::npos)
                    res.violate("invalid-input-accepted", "param-expr:empty", "an empty string as the expression of a declared top-level parameter: the transformation reports success");
                // oracle 1: only documented exceptions escape
                if (r.threw) {
                    bool okExc = r.exc == "SinkFailure" || (r.exc == "OutOfMemoryException" && mm.refused > 0) || ((sigOp == "xpath-eval") && (r.exc == "XSLException" || r.exc == "XMLException" || r.exc == "SAXException"));
                    if (!okExc) res.violate("escaped-exception", sigOp + ":" + r.exc.substr(0, 40), "exception " + r.exc + " escaped " + r.name);
                }
                // oracle 5: benign perturbations alone change nothing
                if (!destr && ck.str("mode") == "advance") {
                    if (r.status != dry.status || r.threw != dry.threw) res.violate("benign-changes-status", sigOp, "transport perturbation alone changed the outcome: status " + std::to_string(dry.status) + " -> " + std::to_string(r.status) + " (" + r.err.substr(0, 200) + ")");
                    else if (r.out != dry.out && o.str("target") != "writer") { std::string d; std::string f = firstObsDiff(dry.out, r.out, &d); res.violate("benign-changes-output", sigOp + ":" + f, "transport perturbation alone changed the output: " + d); }
                } else if (!destr) {
                    // clock faults are benign for the result too
                    if (r.status != dry.status || (r.out != dry.out && o.str("target") != "writer")) { std::string d; std::string f = firstObsDiff(dry.out, r.out, &d); res.violate("clock-changes-result", sigOp + ":" + ck.str("mode") + ":" + f, "simulated clock mode " + ck.str("mode") + " changed the result: " + d); }
                }
                // oracle 4: bounded liveness — the same transformer still works
                g_clock.reset();
                { XReq rq; rq.doc = GOOD_DOC; rq.xsl = GOOD_SS; SimSink s; env.fs.faults.clear(); env.fs.missing.clear(); env.fs.throwing.clear();
                  XformOut fo = runTransform(env, rq, s);
                  if (!fo.ok() || fo.bytes != goodRef) res.violate("transformer-unusable", sigOp, "after " + r.name + " (status " + std::to_string(r.status) + ") the known-good transformation on the same transformer gives status " + std::to_string(fo.status) + " err=[" + fo.err.substr(0, 200) + "] output-equal=" + std::to_string(fo.bytes == goodRef));
                  tr.ev("follow " + std::to_string(fo.status) + " " + hex64(fnvStr(fo.bytes))); }
                // ... and the same operation without its faults now gives what a fresh transformer gives (the stylesheet and
                // document that were in flight when the fault hit are the ones most likely to meet left-over state)
                if (destr && (o.str("op") == "transform" || o.str("op") == "param-expr")) {
                    g_clock.reset(); Json plain = stripFaults(o, false); if (o.str("op") == "param-expr") { plain["expr"] = "'plain'"; plain["faulted"] = false; }
                    OpRes dry2 = dry; if (o.str("op") == "param-expr") { XEnv e2; for (auto& kv : plan.at("resources").o) e2.fs.put(kv.first, kv.second.s); dry2 = doOp(e2, plan, plain, res, false); }
                    OpRes again = doOp(env, plan, plain, res, false);
                    if (again.status != dry2.status || again.threw != dry2.threw) res.violate("state-leak-after-fault", sigOp, "after " + r.name + " failed (status " + std::to_string(r.status) + "), the same operation without faults on the same transformer gives status " + std::to_string(again.status) + " [" + again.err.substr(0, 200) + "], a fresh transformer gives " + std::to_string(dry2.status));
                    else if (again.out != dry2.out) { std::string d; std::string f = firstObsDiff(dry2.out, again.out, &d); res.violate("state-leak-after-fault", sigOp + ":" + f, "after " + r.name + " failed, the same operation without faults on the same transformer differs from a fresh transformer: " + d); }
                    tr.ev("again " + std::to_string(again.status) + " " + hex64(fnvStr(again.out)));
                    res.count("probe:same-op-after-fault");
                }
            }
            removeScratch(env);
            env.destroyTransformer();
        }
        if (mm.foreignFrees || mm.doubleFrees) res.violate("bad-free", mm.firstBadFree, "memory manager saw " + mm.firstBadFree);
        uint64_t leaked = mm.refused == 0 ? mm.liveBlocks : 0;
        if (leaked && record) for (auto& st : mm.liveSites(8)) leakSites.push_back(leakSite(st));
        SimMemoryManager::recordSites() = false;
        tr.ev("end live=" + std::to_string(mm.liveBlocks));
        return leaked;
    }

    // who allocated a leaked block: the innermost frames; "@xerces" when the allocation was made by Xerces-C code
    // more than three frames below any Xalan frame (i.e. an object Xerces created for itself)
    static std::string leakSite(const std::vector<void*>& bt) {
        int firstXalan = -1;
        for (size_t i = 0; i < bt.size(); ++i) { Dl_info di; if (dladdr(bt[i], &di) && di.dli_fname && strstr(di.dli_fname, "libxalan")) { firstXalan = (int)i; break; } }
        std::string f = xalanFrames(bt.data(), (int)bt.size(), 4);
        // A DOM document is different: after adoptDocument() the parser no longer owns it, so a document (or one of its heap blocks)
        // still outstanding was lost by whoever adopted it - the library's Xerces liaison; the harness releases its own.
        bool domDocument = false;
        for (size_t i = 0; i < bt.size(); ++i) { Dl_info di; if (dladdr(bt[i], &di) && di.dli_sname && (strstr(di.dli_sname, "DOMDocumentImpl") || strstr(di.dli_sname, "DOMImplementationImpl14createDocument"))) domDocument = true; }
        if (domDocument) f += "@adopted-dom-document";
        else if (firstXalan < 0 || firstXalan > 2) f += "@xerces";
        return f;
    }
};

} // namespace

int main(int argc, char** argv) { C03 d; return driverMain(argc, argv, d); }
