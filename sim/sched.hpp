// SimScheduler: N real threads, exactly one runnable at a time, hand-over by raw futex from a TU compiled WITHOUT
// -fsanitize=thread so that ThreadSanitizer sees no happens-before between tasks (it keeps reporting races although
// the execution is physically serialised).  See DESIGN.md 3.4.
#pragma once
#include <cstdint>
#include <vector>
#include <string>

namespace simsched {

enum Strategy { Sequential = 0, RandomWalk = 1, PCT = 2, Replay = 3 };

struct Config {
    int ntasks = 2;
    Strategy strategy = Sequential;
    uint64_t seed = 1;
    unsigned switchDen = 256;              // random walk: switch with probability 1/switchDen at every point
    std::vector<uint64_t> changePoints;    // PCT: steps at which the running task's priority drops
    std::vector<int> priorities;           // PCT: initial priorities (higher runs first)
    std::vector<std::pair<uint64_t, int>> replay;   // Replay: (step, task) hand-overs
    bool funcPoints = true;                // function-entry yield points enabled
    uint64_t stepBudget = 50000000ULL;
};

struct Stats {
    uint64_t steps = 0, switches = 0, funcPoints = 0, allocPoints = 0, ioPoints = 0, blockedByLock = 0;
    uint64_t scheduleHash = 0xcbf29ce484222325ULL;
    std::vector<std::pair<uint64_t, int>> handovers;   // (step, task) actually taken
    bool budgetExceeded = false;
};

struct RaceReport { std::string desc, sig, detail; };

void start(const Config& cfg);                 // before creating task threads
void taskBegin(int id);                        // first statement of task thread: parks until scheduled
void taskEnd(int id);                          // last statement: hands the token to a remaining task
void waitAllDone();                            // main thread: returns when every task has ended
Stats finish();                                // after joining
void point(int kind);                          // yield point (0 alloc, 1 free, 2 io, 3 func)
bool active();
void installMutexManager();                    // wrap XMLPlatformUtils::fgMutexMgr (call once after Initialize)
std::vector<RaceReport> takeRaces();           // ThreadSanitizer reports captured since the last call
int currentTask();

} // namespace simsched
