// Generator validation: every feature alone, and random mixes, against the real library.
#include "glue.hpp"
#include "gen.hpp"
using namespace sim; using namespace xalanc;
int main(int argc, char** argv) {
    xalanInitOnce();
    uint64_t seed = argc > 1 ? strtoull(argv[1], 0, 0) : 1; bool verbose = argc > 2;
    int bad = 0;
    auto feats = allFeatures();
    for (size_t i = 0; i <= feats.size() + 30; ++i) {
        Rng g(seed * 1000 + i); DocCfg dc; dc.maxNodes = 25; dc.dtd = i % 2; dc.manyNames = (i % 7 == 3);
        GenDoc d = genDoc(g, dc);
        SSCfg sc; sc.useImport = true; sc.useInclude = true; sc.docFn = true; sc.stripSpace = i % 3 == 0;
        if (i < feats.size()) sc.on.insert(feats[i]); else sc.on = pickFeatures(g, feats, 3, 12);
        GenSS s = genStylesheet(g, sc, d);
        SimFS fs; for (auto& kv : s.resources) fs.put(kv.first, kv.second);
        XalanTransformer t; SimResolver r(fs); t.setEntityResolver(&r);
        SimIStream dis(d.xml, SrcFault()), sis(s.xsl, SrcFault());
        XSLTInputSource din(&dis), sin(&sis); din.setSystemId(XalanDOMString("file:///sim/doc.xml").c_str()); sin.setSystemId(XalanDOMString("file:///sim/ss.xsl").c_str());
        SimSink sink; int st = t.transform(din, sin, &sink, sinkCallback, sinkFlushCallback);
        std::string f = i < feats.size() ? feats[i] : "mix";
        auto obs = parseObs(sink.bytes);
        printf("%-14s st=%d bytes=%zu obs=%zu ubsan=%zu %s\n", f.c_str(), st, sink.bytes.size(), obs.size(), ubsanTake().size(), st ? t.getLastError() : "");
        { size_t q = sink.bytes.find("\xF0\x9F\x98\x80"); if (q != std::string::npos) printf("     4-byte char at output offset %zu (mod 512 = %zu), encoding decl: %.60s\n", q, q % 512, sink.bytes.c_str()); }
        if (st) { ++bad; if (verbose) printf("%s\n", s.xsl.c_str()); }
        else if (verbose && i < feats.size()) { for (size_t k = 0; k < obs.size() && k < 3; ++k) printf("     %s %s [%s]\n", obs[k].f.c_str(), obs[k].n.c_str(), obs[k].v.substr(0, 150).c_str()); }
    }
    printf("bad=%d\n", bad);
    return 0;
}
