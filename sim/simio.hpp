// Byte transports: SimFS (named byte strings), fault scripts on sources, recording/faulting sinks,
// entity resolver over SimFS.
#pragma once
#include "core.hpp"
#include <xercesc/sax/InputSource.hpp>
#include <xercesc/sax/EntityResolver.hpp>
#include <xercesc/util/BinInputStream.hpp>
#include <xercesc/util/XMLString.hpp>
#include <xercesc/util/IOException.hpp>
#include <xercesc/util/TransService.hpp>
#include <xalanc/PlatformSupport/XalanOutputStream.hpp>
#include <xalanc/XalanTransformer/XalanTransformerDefinitions.hpp>
#include <set>
#include <istream>
#include <ostream>
#include <streambuf>
#include <map>
#include <functional>
#include <cstdio>

namespace sim {

static const char* const SIM_BASE = "file:///sim/";

// ------------------------------------------------------------------ source faults
struct SrcFault {
    std::string kind;       // "", truncate, flip, zero, tear, dup, swap, readerr
    uint64_t a = 0, b = 0;  // offset / length / bit
    unsigned maxChunk = 0;  // benign: short reads of 1..maxChunk bytes (0 = whole buffer)
    uint64_t chunkSeed = 0;
    static SrcFault fromJson(const Json& j) {
        SrcFault f; if (j.t != Json::Obj) return f;
        f.kind = j.str("kind"); f.a = (uint64_t)j.num("a"); f.b = (uint64_t)j.num("b"); f.maxChunk = (unsigned)j.num("chunk"); f.chunkSeed = (uint64_t)j.num("cseed");
        return f;
    }
    Json toJson() const { Json j = Json::object(); j["kind"] = kind; j["a"] = (long long)a; j["b"] = (long long)b; j["chunk"] = maxChunk; j["cseed"] = (long long)chunkSeed; return j; }
    bool destructive() const { return !kind.empty(); }
};

// bytes as the reader will see them (readerr keeps the bytes; the stream fails at offset a)
inline std::string applySrcFault(const std::string& in, const SrcFault& f, const std::string& older = "") {
    std::string s = in; size_t n = s.size();
    if (f.kind == "truncate") { if (f.a < n) s.resize(f.a); }
    else if (f.kind == "flip") { if (n) s[f.a % n] = (char)(s[f.a % n] ^ (1u << (f.b & 7))); }
    else if (f.kind == "zero") { if (n) { size_t o = f.a % n, l = std::min<size_t>(f.b ? f.b : 1, n - o); for (size_t i = 0; i < l; ++i) s[o + i] = 0; } }
    else if (f.kind == "tear") { size_t k = n ? f.a % n : 0; s = s.substr(0, k) + (older.size() > k ? older.substr(k) : std::string()); }
    else if (f.kind == "dup") { if (n) { size_t o = f.a % n, l = std::min<size_t>(f.b ? f.b : 1, n - o); s.insert(o, in.substr(o, l)); } }
    else if (f.kind == "swap") { if (n >= 4) { size_t l = std::max<size_t>(1, std::min<size_t>(f.b ? f.b : 1, n / 2)); size_t o = f.a % (n - 2 * l + 1); std::string x = s.substr(o, l), y = s.substr(o + l, l); s.replace(o, l, y); s.replace(o + l, l, x); } }
    return s;
}

struct ReadStats { uint64_t reads = 0, bytes = 0, shortReads = 0, errorsRaised = 0; };

// std::streambuf with short reads and a failing read at an offset
struct SimStreamBuf : public std::streambuf {
    std::string data; size_t pos = 0; Rng chunk; unsigned maxChunk; int64_t errAt; ReadStats* st; std::function<void()> yield;
    char buf[4096];
    SimStreamBuf(const std::string& d, const SrcFault& f, ReadStats* s) : data(d), chunk(f.chunkSeed ^ 0x51ed), maxChunk(f.maxChunk), errAt(f.kind == "readerr" ? (int64_t)(d.empty() ? 0 : f.a % d.size()) : -1), st(s) { setg(buf, buf, buf); }
    int_type underflow() override {
        if (yield) yield();
        if (gptr() < egptr()) return traits_type::to_int_type(*gptr());
        if (errAt >= 0 && (int64_t)pos >= errAt) { if (st) ++st->errorsRaised; throw std::ios_base::failure("simulated read error"); }
        if (pos >= data.size()) return traits_type::eof();
        size_t want = sizeof buf;
        if (maxChunk) { want = 1 + (size_t)chunk.below(maxChunk); if (st) ++st->shortReads; }
        size_t n = std::min(want, data.size() - pos);
        if (errAt >= 0 && pos + n > (size_t)errAt) n = (size_t)errAt - pos;
        if (n == 0) { if (st) ++st->errorsRaised; throw std::ios_base::failure("simulated read error"); }
        memcpy(buf, data.data() + pos, n); pos += n; setg(buf, buf, buf + n);
        if (st) { ++st->reads; st->bytes += n; }
        return traits_type::to_int_type(*gptr());
    }
};
struct SimIStream : public std::istream {
    SimStreamBuf sb;
    SimIStream(const std::string& d, const SrcFault& f, ReadStats* s = nullptr) : std::istream(nullptr), sb(d, f, s) { rdbuf(&sb); }
};

// xercesc::BinInputStream with short reads and a throwing read at an offset
struct SimBinInputStream : public xercesc::BinInputStream {
    std::string data; size_t pos = 0; Rng chunk; unsigned maxChunk; int64_t errAt; ReadStats* st;
    SimBinInputStream(const std::string& d, const SrcFault& f, ReadStats* s) : data(d), chunk(f.chunkSeed ^ 0x51ed), maxChunk(f.maxChunk), errAt(f.kind == "readerr" ? (int64_t)(d.empty() ? 0 : f.a % d.size()) : -1), st(s) {}
    XMLFilePos curPos() const override { return pos; }
    XMLSize_t readBytes(XMLByte* const to, const XMLSize_t max) override {
        if (errAt >= 0 && (int64_t)pos >= errAt) { if (st) ++st->errorsRaised; throw xercesc::IOException(__FILE__, __LINE__, xercesc::XMLExcepts::File_CouldNotReadFromFile, xercesc::XMLPlatformUtils::fgMemoryManager); }
        size_t want = max; if (maxChunk) { want = std::min<size_t>(max, 1 + (size_t)chunk.below(maxChunk)); if (st) ++st->shortReads; }
        // Xerces-C decides the encoding and decodes the XML declaration from what its first read returns (with fewer than four bytes it settles for
        // UTF-8, with half a declaration in UTF-16 it reports "unable to decode first line").  That is Xerces-C's reading of the BinInputStream
        // contract, not the library's: the first read delivers up to 256 bytes, short reads start after that.
        if (pos == 0 && want < 256) want = std::min<size_t>(max, 256);
        size_t n = std::min(want, data.size() - pos);
        if (errAt >= 0 && pos + n > (size_t)errAt) n = (size_t)errAt - pos;
        if (n == 0 && errAt >= 0 && (int64_t)pos >= errAt) { if (st) ++st->errorsRaised; throw xercesc::IOException(__FILE__, __LINE__, xercesc::XMLExcepts::File_CouldNotReadFromFile, xercesc::XMLPlatformUtils::fgMemoryManager); }
        memcpy(to, data.data() + pos, n); pos += n; if (st) { ++st->reads; st->bytes += n; }
        return n;
    }
    const XMLCh* getContentType() const override { return nullptr; }
};
struct SimInputSource : public xercesc::InputSource {
    std::string data; SrcFault f; ReadStats* st;
    SimInputSource(const std::string& d, const SrcFault& ff, const std::string& sysId, ReadStats* s = nullptr, xercesc::MemoryManager* mm = xercesc::XMLPlatformUtils::fgMemoryManager)
        : xercesc::InputSource(mm), data(d), f(ff), st(s) {
        XMLCh* x = xercesc::XMLString::transcode(sysId.c_str()); setSystemId(x); xercesc::XMLString::release(&x);
    }
    xercesc::BinInputStream* makeStream() const override { return new (getMemoryManager()) SimBinInputStream(data, f, st); }
};

// ------------------------------------------------------------------ SimFS + resolver
struct SimFS {
    std::map<std::string, std::string> files;             // name (relative to SIM_BASE) -> bytes
    std::map<std::string, SrcFault> faults;               // per-name fault on next open
    std::set<std::string> missing;                        // resolver returns an unreadable source for these
    std::set<std::string> throwing;                       // resolver itself throws for these
    std::map<std::string, int> opens;                     // how often each name was opened
    ReadStats stats;
    void put(const std::string& n, const std::string& b) { files[n] = b; }
};

inline std::string narrow(const XMLCh* s) { if (!s) return ""; char* c = xercesc::XMLString::transcode(s); std::string r = c ? c : ""; xercesc::XMLString::release(&c); return r; }

struct SimResolver : public xercesc::EntityResolver {
    SimFS& fs; std::function<void()> yield; uint64_t calls = 0, misses = 0;
    explicit SimResolver(SimFS& f) : fs(f) {}
    xercesc::InputSource* resolveEntity(const XMLCh* const, const XMLCh* const systemId) override {
        if (yield) yield();
        ++calls;
        std::string sid = narrow(systemId);
        std::string name = sid; size_t p = sid.find("/sim/"); if (p != std::string::npos) name = sid.substr(p + 5);
        else if (sid.compare(0, 5, "file:") == 0 || (!sid.empty() && sid[0] == '/')) return nullptr;   // a real file (path forms): let the parser open it
        fs.opens[name]++;
        if (fs.throwing.count(name)) throw xercesc::IOException(__FILE__, __LINE__, xercesc::XMLExcepts::File_CouldNotOpenFile, xercesc::XMLPlatformUtils::fgMemoryManager);
        auto it = fs.files.find(name);
        if (it == fs.files.end() || fs.missing.count(name)) {
            ++misses;
            // a source whose stream cannot be made: what a missing file looks like to the parser
            struct Missing : public xercesc::InputSource { Missing(const XMLCh* s) : xercesc::InputSource(s) {} xercesc::BinInputStream* makeStream() const override { return nullptr; } };
            return new Missing(systemId);
        }
        SrcFault f; auto ft = fs.faults.find(name); if (ft != fs.faults.end()) f = ft->second;
        return new SimInputSource(applySrcFault(it->second, f), f, sid, &fs.stats);
    }
};

// ------------------------------------------------------------------ sinks
struct SinkFault {
    std::string kind;    // "", short, throw, bad, flushfail
    uint64_t at = 0;     // 1-based write ordinal
    static SinkFault fromJson(const Json& j) { SinkFault f; if (j.t != Json::Obj) return f; f.kind = j.str("kind"); f.at = (uint64_t)j.num("at"); return f; }
    Json toJson() const { Json j = Json::object(); j["kind"] = kind; j["at"] = (long long)at; return j; }
};
struct SinkFailure { };   // thrown by sink-throw

struct SimSink {
    std::string bytes;                 // everything accepted
    std::vector<size_t> chunks;        // sizes of accepted writes
    uint64_t writes = 0, flushes = 0, faultsFired = 0, writesAfterFault = 0;
    bool flushedAfterLastWrite = false;
    SinkFault fault; bool dead = false;
    std::function<void()> yield;
    void reset(const SinkFault& f = SinkFault()) { bytes.clear(); chunks.clear(); writes = flushes = faultsFired = writesAfterFault = 0; fault = f; dead = false; flushedAfterLastWrite = false; }
    // returns number of bytes accepted; may throw SinkFailure
    size_t write(const char* p, size_t n) {
        if (yield) yield();
        ++writes; flushedAfterLastWrite = false;
        if (dead) { ++writesAfterFault; return 0; }
        if (!fault.kind.empty() && fault.kind != "flushfail" && writes == fault.at) {
            ++faultsFired; dead = true;
            if (fault.kind == "short") { size_t k = n / 2; bytes.append(p, k); chunks.push_back(k); return k; }
            if (fault.kind == "throw") throw SinkFailure();
            return 0;   // bad
        }
        bytes.append(p, n); chunks.push_back(n); return n;
    }
    bool flush() { if (yield) yield(); ++flushes; flushedAfterLastWrite = true; if (fault.kind == "flushfail" && flushes == fault.at) { ++faultsFired; dead = true; return false; } return !dead; }
};

// callback form
inline CallbackSizeType sinkCallback(const char* p, CallbackSizeType n, void* h) { return ((SimSink*)h)->write(p, n); }
inline void sinkFlushCallback(void* h) { ((SimSink*)h)->flush(); }

// ostream form
struct SinkStreamBuf : public std::streambuf {
    SimSink& s; explicit SinkStreamBuf(SimSink& x) : s(x) {}
    std::streamsize xsputn(const char* p, std::streamsize n) override { return (std::streamsize)s.write(p, (size_t)n); }
    int_type overflow(int_type c) override { if (c == traits_type::eof()) return 0; char ch = (char)c; return s.write(&ch, 1) == 1 ? c : traits_type::eof(); }
    int sync() override { return s.flush() ? 0 : -1; }
};
struct SinkOStream : public std::ostream { SinkStreamBuf sb; explicit SinkOStream(SimSink& s) : std::ostream(nullptr), sb(s) { rdbuf(&sb); } };

// FILE* form (fopencookie)
inline FILE* sinkFILE(SimSink& s) {
    cookie_io_functions_t io = {};
    io.write = [](void* c, const char* p, size_t n) -> ssize_t { try { size_t k = ((SimSink*)c)->write(p, n); return k == n ? (ssize_t)n : (k ? (ssize_t)k : 0); } catch (SinkFailure&) { return 0; } };
    io.close = [](void*) -> int { return 0; };
    FILE* f = fopencookie(&s, "w", io);
    if (f) setvbuf(f, nullptr, _IONBF, 0);
    return f;
}

// XalanOutputStream form with per-run buffer / transcoder block sizes
struct SinkXalanOutputStream : public xalanc::XalanOutputStream {
    SimSink& s;
    SinkXalanOutputStream(SimSink& x, xercesc::MemoryManager& mm, size_type bufSize, size_type tblock) : xalanc::XalanOutputStream(mm, bufSize, tblock), s(x) {}
    void writeData(const char* p, size_type n) override {
        size_t k = s.write(p, n);
        if (k != n) throw xalanc::XalanOutputStream::XalanOutputStreamException(xalanc::XalanDOMString("sink refused bytes", getMemoryManager()), getMemoryManager(), 0);
    }
    void doFlush() override { if (!s.flush()) throw xalanc::XalanOutputStream::XalanOutputStreamException(xalanc::XalanDOMString("sink flush failed", getMemoryManager()), getMemoryManager(), 0); }
};

} // namespace sim
