// Worker protocol + sanitizer hooks shared by all drivers.
#include "core.hpp"
#include <map>
#include <unistd.h>
#include <cstdio>
#include <cstring>
#include <string>
#include <vector>
#include <exception>
#include <unistd.h>
#include <ctime>
#include <cstdlib>
#include <sys/personality.h>

// ---- sanitizer defaults -----------------------------------------------------
extern "C" __attribute__((used, visibility("default"))) const char* __asan_default_options() {
    return "exitcode=77:detect_leaks=1:leak_check_at_exit=0:abort_on_error=0:allocator_may_return_null=1:handle_abort=1:detect_stack_use_after_return=0:symbolize=1:malloc_context_size=24";
}
extern "C" __attribute__((used, visibility("default"))) const char* __ubsan_default_options() {
    return "print_stacktrace=0:silence_unsigned_overflow=1";
}
extern "C" __attribute__((used, visibility("default"))) const char* __tsan_default_options() {
    return "halt_on_error=0:exitcode=0:report_signal_unsafe=0:history_size=4:second_deadlock_stack=0";
}

// ---- simulated clock: libxalan-c's PLT entries for clock/time/rand bind to these definitions
namespace sim { SimClock g_clock; bool g_traceMode = false; }
extern "C" __attribute__((used, visibility("default"))) clock_t clock(void) noexcept { return (clock_t)sim::g_clock.tick(); }
extern "C" __attribute__((used, visibility("default"))) time_t time(time_t* t) noexcept { ++sim::g_clock.timeCalls; time_t v = (time_t)sim::g_clock.fixedTime; if (t) *t = v; return v; }
extern "C" __attribute__((used, visibility("default"))) int rand(void) noexcept { return (int)((++sim::g_clock.randCalls * 1103515245u + 12345u) & 0x7fffffff); }
extern "C" __attribute__((used, visibility("default"))) void srand(unsigned) noexcept {}

// ---- UBSan report capture ---------------------------------------------------
static std::vector<std::string> g_ubsan;
extern "C" void __ubsan_get_current_report_data(const char** k, const char** m, const char** f, unsigned* l, unsigned* c, char** a) __attribute__((weak));
extern "C" __attribute__((used, visibility("default"))) void __ubsan_on_report(void) {
    if (!__ubsan_get_current_report_data) return;
    const char *k = "", *m = "", *f = ""; unsigned l = 0, c = 0; char* a = nullptr;
    __ubsan_get_current_report_data(&k, &m, &f, &l, &c, &a);
    std::string file = f ? f : "";
    size_t p = file.find("/src/xalanc/"); if (p != std::string::npos) file = file.substr(p + 5);
    g_ubsan.push_back(std::string(k ? k : "?") + "@" + file + ":" + std::to_string(l));
}
namespace sim {
void ubsanReset() { g_ubsan.clear(); }
std::vector<std::string> ubsanTake() { std::vector<std::string> r; r.swap(g_ubsan); return r; }

static uint64_t g_curRun = 0;
static void onTerminate() {
    // a std::terminate inside the library: report as a crash of the current run
    fprintf(stdout, "\nT %llu std::terminate\n", (unsigned long long)g_curRun); fflush(stdout);
    _exit(78);
}

static void emit(const Result& r, const Json* plan, const Trace& tr) {
    Json j = Json::object();
    j["run"] = (long long)r.run; j["seed"] = hex64(r.seed); j["status"] = r.status;
    j["hash"] = tr.hex(); j["events"] = (long long)tr.events;
    if (r.status == "harness-error") j["detail"] = r.harnessDetail;
    if (!r.viols.empty()) { Json l = Json::array(); for (auto& v : r.viols) { Json o = Json::object(); o["class"] = v.cls; o["sig"] = v.sig; o["detail"] = v.detail; o["count"] = v.count; if (!v.sub.isNull()) o["sub"] = v.sub; l.push(o); } j["violations"] = l; }
    j["counters"] = r.counters; j["tags"] = r.tags;
    if (r.extra.size()) j["extra"] = r.extra;
    if (plan) j["plan"] = *plan;
    if (tr.keep) { Json l = Json::array(); for (auto& s : tr.log) l.push(s); j["trace"] = l; }
    std::string s = j.dump();
    fputs("R ", stdout); fwrite(s.data(), 1, s.size(), stdout); fputc('\n', stdout); fflush(stdout);
}

// ---- LeakSanitizer between runs (VERIF_LSAN=1): memory the library obtained outside the simulated manager (ICU objects, global new) and lost.
// Each check lists every leak of the process so far; what grew since the previous check belongs to the run that just ended.
extern "C" int __lsan_do_recoverable_leak_check() __attribute__((weak));
extern "C" void __sanitizer_set_report_path(const char*) __attribute__((weak));
static std::map<std::string, long> g_leakSeen;
static void lsanAfterRun(Result& res) {
    static const bool on = getenv("VERIF_LSAN") != nullptr; if (!on || !__lsan_do_recoverable_leak_check || !__sanitizer_set_report_path) return;
    char base[96]; snprintf(base, sizeof base, "/tmp/verif-lsan-%d", (int)getpid()); std::string file = std::string(base) + "." + std::to_string((int)getpid());
    unlink(file.c_str()); __sanitizer_set_report_path(base);
    const int any = __lsan_do_recoverable_leak_check();
    __sanitizer_set_report_path("stderr");
    if (!any) { unlink(file.c_str()); return; }
    FILE* f = fopen(file.c_str(), "r"); if (!f) return;
    std::map<std::string, long> now; std::map<std::string, std::string> text; char line[2048]; long bytes = 0; std::vector<std::string> frames; bool direct = false;
    // A leak counts against the library only if one of its functions is in the allocation stack; memory Xerces-C or ICU lose on their own
    // (Xerces drops 40 bytes when a read fails) is counted as a probe.  The signature names the first two library frames.
    auto flush = [&]() { if (direct && bytes) { std::string sig; int got = 0; bool anyLib = false; for (auto& fr : frames) if (fr.compare(0, 2, "X:") == 0) anyLib = true;
        // No library frame.  A stack that reaches the driver is complete: the memory was lost by Xerces-C, ICU or the harness on their own (probe).
        // A stack that ends inside libstdc++ or libc was cut off by the frame-pointer unwinder (those libraries keep no frame pointers), so the
        // caller is unknown; with a Xerces-C or ICU frame in sight it is put down to them, otherwise it is memory obtained through the C++
        // runtime (strstream, iostream, std::string) during this run and never released - the library's, since the harness loses none on the
        // unchanged tree.  ASAN_OPTIONS=fast_unwind_on_malloc=0 with the replay file shows the whole stack.
        if (!anyLib) {
            bool complete = false, ext = false; std::string top;
            for (auto& fr : frames) { if (fr.compare(0, 5, "sim::") == 0 || fr == "main" || fr.find("Driver::") != std::string::npos) complete = true; if (fr.compare(0, 2, "E:") == 0) ext = true;
                if (top.empty() && fr.find("operator new") == std::string::npos && fr.find("malloc") == std::string::npos && fr.find("calloc") == std::string::npos && fr.find("realloc") == std::string::npos) top = fr; }
            if (complete || ext || top.empty()) { res.count("probe:lsan-leak-without-a-library-frame"); bytes = 0; frames.clear(); direct = false; return; }
            std::string sig = "stack-cut-off-at:" + top; now[sig] += bytes; if (!text.count(sig)) { std::string t; for (auto& fr : frames) t += fr + " < "; text[sig] = t + "(cut off by the unwinder; replay with ASAN_OPTIONS=fast_unwind_on_malloc=0 for the callers)"; }
            bytes = 0; frames.clear(); direct = false; return;
        }
        for (auto& fr0 : frames) { std::string fr = fr0.compare(0, 2, "X:") == 0 ? fr0.substr(2) : fr0; if (fr0.compare(0, 2, "X:") != 0) continue; if (fr.find("operator new") != std::string::npos || fr.find("malloc") != std::string::npos || fr.find("calloc") != std::string::npos || fr.find("realloc") != std::string::npos) continue; if (got) sig += "<"; sig += fr; if (++got == 2) break; } if (sig.empty()) sig = "unknown"; now[sig] += bytes; if (!text.count(sig)) { std::string t; for (auto& fr : frames) t += ((fr.compare(0, 2, "X:") == 0 || fr.compare(0, 2, "E:") == 0) ? fr.substr(2) : fr) + " < "; text[sig] = t; } } bytes = 0; frames.clear(); direct = false; };
    while (fgets(line, sizeof line, f)) {
        std::string l = line;
        if (l.compare(0, 14, "Direct leak of") == 0) { flush(); direct = true; bytes = atol(l.c_str() + 15); }
        else if (l.compare(0, 16, "Indirect leak of") == 0 || l.compare(0, 8, "SUMMARY:") == 0) flush();
        else if (direct && l.find("    #") == 0 && l.find(" in ") == std::string::npos) {
            // a frame without a symbol (a static function of a stripped system library): module name and offset identify it
            size_t a = l.find('('), b = a == std::string::npos ? a : l.find(')', a); if (b != std::string::npos) { std::string m = l.substr(a + 1, b - a - 1); size_t sl = m.rfind('/'); if (sl != std::string::npos) m = m.substr(sl + 1); if (m.find("libxerces-c") == 0 || m.find("libicu") == 0) m = "E:" + m; frames.push_back(m); }
        }
        else if (direct) { size_t q = l.find(" in "); if (l.find("    #") == 0 && q != std::string::npos) { std::string fn = l.substr(q + 4); size_t e = fn.find(" /"); if (e == std::string::npos) e = fn.find(" ("); if (e != std::string::npos) fn = fn.substr(0, e); size_t par = fn.find('('); if (par != std::string::npos) fn = fn.substr(0, par); const bool lib = fn.find("xalanc_1_12::") != std::string::npos || l.find("/src/xalanc/") != std::string::npos;   /* the C API and file-static helpers are outside the namespace */ for (const char* ns : { "xalanc_1_12::", "xercesc_3_2::", "icu_72::" }) { size_t z; while ((z = fn.find(ns)) != std::string::npos) fn.erase(z, strlen(ns)); } if (lib) fn = "X:" + fn; else if (l.find("xercesc_3_2::") != std::string::npos || l.find("icu_72::") != std::string::npos || l.find("libxerces-c") != std::string::npos || l.find("libicu") != std::string::npos) fn = "E:" + fn; while (!fn.empty() && (fn.back() == '\n' || fn.back() == ' ')) fn.pop_back(); frames.push_back(fn); } }
    }
    flush(); fclose(f); unlink(file.c_str());
    for (auto& kv : now) { long before = g_leakSeen.count(kv.first) ? g_leakSeen[kv.first] : 0; if (kv.second > before) res.violate("leak:lsan", kv.first, "LeakSanitizer: " + std::to_string(kv.second - before) + " byte(s) lost during this run, allocated from " + text[kv.first]); }
    g_leakSeen = now;
}

static void runOne(Driver& d, const Json& plan, uint64_t run, uint64_t seed, bool withPlan, bool keepTrace) {
    Result res; res.run = run; res.seed = seed; Trace tr; tr.keep = keepTrace;
    ubsanReset();
    g_clock.reset();
    try { d.execute(plan, res, tr); }
    catch (const std::exception& e) { res.harness(std::string("exception escaped driver: ") + e.what()); }
    catch (...) { res.harness("unknown exception escaped driver"); }
    lsanAfterRun(res);
    auto ub = ubsanTake();
    if (!ub.empty()) {
        Json l = Json::array(); for (auto& s : ub) l.push(s); res.extra["ubsan"] = l;
        for (auto& u : ub) res.violate("sanitizer:ubsan", u, "UndefinedBehaviorSanitizer report: " + u);
    }
    emit(res, (withPlan || res.status != "ok") ? &plan : nullptr, tr);
}

int driverMain(int argc, char** argv, Driver& d) {
    // address determinism: re-exec once without ASLR
    if (!getenv("SIM_NO_REEXEC")) {
        int pers = personality(0xffffffff);
        if (pers != -1 && !(pers & ADDR_NO_RANDOMIZE)) {
            if (personality(pers | ADDR_NO_RANDOMIZE) != -1) { setenv("SIM_NO_REEXEC", "1", 1); execv("/proc/self/exe", argv); }
        }
    }
    setvbuf(stdout, nullptr, _IOFBF, 1 << 16);
    std::set_terminate(onTerminate);
    uint64_t seed = 1, start = 0, count = 0, dumpRun = 0; unsigned w = 0, n = 1;
    std::string tier = "quick", execPlan, mode = "worker"; bool keepTrace = false; unsigned samplePlans = 2;
    for (int i = 1; i < argc; ++i) {
        std::string a = argv[i];
        auto nxt = [&]() -> std::string { if (i + 1 >= argc) { fprintf(stderr, "missing value for %s\n", a.c_str()); exit(2); } return argv[++i]; };
        if (a == "--seed") seed = strtoull(nxt().c_str(), nullptr, 0);
        else if (a == "--tier") tier = nxt();
        else if (a == "--start") start = strtoull(nxt().c_str(), nullptr, 0);
        else if (a == "--runs") count = strtoull(nxt().c_str(), nullptr, 0);
        else if (a == "--worker") { std::string v = nxt(); sscanf(v.c_str(), "%u/%u", &w, &n); }
        else if (a == "--exec-plan") { execPlan = nxt(); mode = "exec"; }
        else if (a == "--dump-plan") { dumpRun = strtoull(nxt().c_str(), nullptr, 0); mode = "dump"; }
        else if (a == "--trace") { keepTrace = true; g_traceMode = true; }
        else if (a == "--serve") mode = "serve";
        else if (a == "--sample-plans") samplePlans = (unsigned)strtoul(nxt().c_str(), nullptr, 0);
        else { fprintf(stderr, "unknown argument %s\n", a.c_str()); return 2; }
    }
    if (mode == "dump") {
        Json p = d.makePlan(seed, dumpRun, tier);
        std::string s = p.dump(); fwrite(s.data(), 1, s.size(), stdout); fputc('\n', stdout); fflush(stdout); _exit(0);
    }
    d.init();
    if (mode == "exec") {
        Json p = Json::parse(readFile(execPlan));
        const Json* inner = p.find("plan_doc"); // replay files wrap the plan
        const Json& plan = inner ? *inner : p;
        g_curRun = (uint64_t)plan.num("run");
        fprintf(stdout, "B %llu\n", (unsigned long long)g_curRun); fflush(stdout);
        runOne(d, plan, g_curRun, strtoull(plan.str("seed", "0").c_str(), nullptr, 16), false, keepTrace);
        return 0;
    }
    if (mode == "serve") {
        // dynamic distribution: the master writes one run number per line ("<run> <withPlan>"), "q" ends
        char line[128];
        while (fgets(line, sizeof line, stdin)) {
            if (line[0] == 'q') break;
            unsigned long long r = 0; int wp = 0; if (sscanf(line, "%llu %d", &r, &wp) < 1) continue;
            g_curRun = r;
            if (d.isolateRuns() && !getenv("SIM_ISOLATED")) {
                // the same thing in a process of its own: this worker only relays the lines
                char self[512]; ssize_t sl = readlink("/proc/self/exe", self, sizeof self - 1); if (sl <= 0) { fprintf(stderr, "readlink /proc/self/exe failed\n"); return 2; } self[sl] = 0;
                char cmd[1024]; snprintf(cmd, sizeof cmd, "echo '%llu %d' | SIM_ISOLATED=1 '%s' --seed %llu --tier %s %s--serve", r, wp, self, (unsigned long long)seed, tier.c_str(), keepTrace ? "--trace " : "");
                fflush(stdout); FILE* f = popen(cmd, "r"); if (!f) { fprintf(stderr, "popen failed\n"); return 2; }
                std::string ln; int ch; while ((ch = fgetc(f)) != EOF) { ln += (char)ch; if (ch == '\n') { if (ln != "E\n") { fwrite(ln.data(), 1, ln.size(), stdout); fflush(stdout); } ln.clear(); } }
                pclose(f);
                continue;
            }
            fprintf(stdout, "B %llu\n", r); fflush(stdout);
            Json plan = d.makePlan(seed, r, tier);
            runOne(d, plan, r, runSeed(seed, d.property(), r), wp != 0, keepTrace);
        }
        fputs("E\n", stdout); fflush(stdout);
        return 0;
    }
    for (uint64_t r = start; r < start + count; ++r) {
        if (r % n != w) continue;
        g_curRun = r;
        fprintf(stdout, "B %llu\n", (unsigned long long)r); fflush(stdout);
        Json plan = d.makePlan(seed, r, tier);
        runOne(d, plan, r, runSeed(seed, d.property(), r), (r - start) / n < samplePlans, keepTrace);
    }
    fputs("E\n", stdout); fflush(stdout);
    return 0;
}

} // namespace sim
