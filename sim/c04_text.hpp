// C04 helpers: UTF-16 strings by value in JSON plans, character classes, encodability.
//
// Plan strings.  The sim::Json writer treats std::string as raw bytes, so every string a C04 plan carries is
// pure printable ASCII and survives json.loads/json.dumps(ensure_ascii) unchanged:
//   * a JSON string: literal ASCII, with "~{HEX}" standing for the UTF-16 code unit / code point HEX
//     (used for names; '~' itself is written ~{7E});
//   * a JSON array whose items are  int            one code point (0 .. 0x10FFFF; 0xD800-0xDFFF = a lone surrogate)
//                                   {"c":cp,"n":k} k times the code point cp (filler runs)
//                                   "string"       as above
//     (used for text, attribute values, comment and PI data: the master's shrinker can delete items).
// Every subsequence of such an array is again a valid text.
#pragma once
#include <xercesc/util/PlatformUtils.hpp>
#include <xercesc/util/TransService.hpp>
#include "core.hpp"
#include <string>
#include <vector>
#include <map>
#include <set>
#include <unordered_map>
#include <unicode/ucnv.h>

namespace c04 {

using sim::Json;
typedef std::u16string XS;

static const size_t MAX_UNITS = 40000;   // hard cap per string (plans from the generator stay far below)

inline void appendCp(XS& s, uint32_t cp) {
    if (cp >= 0x10000 && cp <= 0x10FFFF) { cp -= 0x10000; s += (char16_t)(0xD800 + (cp >> 10)); s += (char16_t)(0xDC00 + (cp & 0x3FF)); }
    else s += (char16_t)(cp & 0xFFFF);
}
inline bool isHi(char16_t c) { return c >= 0xD800 && c <= 0xDBFF; }
inline bool isLo(char16_t c) { return c >= 0xDC00 && c <= 0xDFFF; }
// code points of a UTF-16 string; unpaired surrogates stay as themselves
inline std::vector<uint32_t> decode(const XS& s) {
    std::vector<uint32_t> r; r.reserve(s.size());
    for (size_t i = 0; i < s.size(); ++i) {
        char16_t c = s[i];
        if (isHi(c) && i + 1 < s.size() && isLo(s[i + 1])) { r.push_back(0x10000 + ((uint32_t)(c - 0xD800) << 10) + (s[i + 1] - 0xDC00)); ++i; }
        else r.push_back(c);
    }
    return r;
}
inline XS encode(const std::vector<uint32_t>& v) { XS r; for (auto c : v) appendCp(r, c); return r; }

inline void appendStr(XS& r, const std::string& s) {
    for (size_t i = 0; i < s.size() && r.size() < MAX_UNITS; ++i) {
        if (s[i] == '~' && i + 1 < s.size() && s[i + 1] == '{') {
            size_t e = s.find('}', i); if (e != std::string::npos && e - i <= 9) { appendCp(r, (uint32_t)strtoul(s.substr(i + 2, e - i - 2).c_str(), nullptr, 16)); i = e; continue; }
        }
        r += (char16_t)(unsigned char)s[i];
    }
}
inline XS xsFromJson(const Json& j) {
    XS r;
    if (j.t == Json::Str) appendStr(r, j.s);
    else if (j.t == Json::Int) appendCp(r, (uint32_t)j.i);
    else if (j.t == Json::Arr) {
        for (auto& it : j.a) {
            if (r.size() >= MAX_UNITS) break;
            if (it.t == Json::Int) { if (it.i >= 0 && it.i <= 0x10FFFF) appendCp(r, (uint32_t)it.i); }
            else if (it.t == Json::Str) appendStr(r, it.s);
            else if (it.t == Json::Obj) { int64_t c = it.num("c", 'a'), n = it.num("n", 1); if (c < 0 || c > 0x10FFFF) c = 'a'; if (n > (int64_t)MAX_UNITS) n = MAX_UNITS; for (int64_t k = 0; k < n && r.size() < MAX_UNITS; ++k) appendCp(r, (uint32_t)c); }
        }
    }
    return r;
}
inline bool plainAscii(uint32_t c) { return c >= 0x20 && c < 0x7F && c != '~' && c != '"' && c != '\\'; }
inline std::string hexCp(uint32_t c) { char b[16]; snprintf(b, sizeof b, "%X", c); return b; }
// name form: one JSON string
inline Json nameToJson(const XS& s) {
    std::string r; for (auto c : decode(s)) { if (plainAscii(c)) r += (char)c; else r += "~{" + hexCp(c) + "}"; }
    return Json(r);
}
// text form: array of items
inline Json textToJson(const XS& s) {
    Json a = Json::array(); auto v = decode(s); size_t i = 0;
    while (i < v.size()) {
        size_t j = i; while (j < v.size() && v[j] == v[i]) ++j;
        if (j - i >= 6) { Json o = Json::object(); o["c"] = (long long)v[i]; o["n"] = (long long)(j - i); a.push(o); i = j; continue; }
        if (plainAscii(v[i])) {
            std::string str; size_t k = i;
            while (k < v.size() && plainAscii(v[k])) { size_t m = k; while (m < v.size() && v[m] == v[k]) ++m; if (m - k >= 6) break; str += (char)v[k]; ++k; }
            if (str.size() >= 2) { a.push(Json(str)); i = k; continue; }
        }
        a.push(Json((long long)v[i])); ++i;
    }
    return a;
}
inline std::string utf8(const XS& s) {
    std::string r;
    for (auto c : decode(s)) {
        if (c < 0x80) r += (char)c; else if (c < 0x800) { r += (char)(0xC0 | (c >> 6)); r += (char)(0x80 | (c & 63)); }
        else if (c < 0x10000) { r += (char)(0xE0 | (c >> 12)); r += (char)(0x80 | ((c >> 6) & 63)); r += (char)(0x80 | (c & 63)); }
        else { r += (char)(0xF0 | (c >> 18)); r += (char)(0x80 | ((c >> 12) & 63)); r += (char)(0x80 | ((c >> 6) & 63)); r += (char)(0x80 | (c & 63)); }
    }
    return r;
}
// ASCII-safe rendering for details and traces
inline std::string show(const XS& s, size_t from = 0, size_t maxUnits = 48) {
    std::string r; auto v = decode(s.substr(std::min(from, s.size()), maxUnits));
    for (auto c : v) { if (c >= 0x20 && c < 0x7F && c != '\\') r += (char)c; else r += "\\u{" + hexCp(c) + "}"; }
    if (from + maxUnits < s.size()) r += "...";
    return r;
}
inline XS ascii(const char* s) { XS r; for (; *s; ++s) r += (char16_t)(unsigned char)*s; return r; }

// ------------------------------------------------------------------ character classes
enum Cls { C_ASCII, C_LTAMP, C_GT, C_QUOT, C_RSB, C_TAB, C_LF, C_CR, C_C0, C_NUL, C_C1, C_NEL, C_LATIN1, C_BMP, C_LSEP, C_SUPP, C_SURR, C_NONCHAR, C_N };
static const char* const CLS_NAME[C_N] = { "ascii", "lt-amp", "gt", "quot", "rsb", "TAB", "LF", "CR", "c0", "nul", "c1", "NEL", "latin1", "bmp", "LSEP", "supp", "surrogate", "nonchar" };
inline Cls classOf(uint32_t c) {
    if (c == 0) return C_NUL; if (c == 9) return C_TAB; if (c == 10) return C_LF; if (c == 13) return C_CR; if (c < 0x20) return C_C0;
    if (c == '<' || c == '&') return C_LTAMP; if (c == '>') return C_GT; if (c == '"' || c == '\'') return C_QUOT; if (c == ']') return C_RSB;
    if (c < 0x7F) return C_ASCII; if (c == 0x85) return C_NEL; if (c <= 0x9F) return C_C1; if (c <= 0xFF) return C_LATIN1;
    if (c == 0x2028) return C_LSEP; if (c >= 0xD800 && c <= 0xDFFF) return C_SURR; if (c == 0xFFFE || c == 0xFFFF) return C_NONCHAR;
    if (c < 0x10000) return C_BMP; return C_SUPP;
}
inline uint32_t classMask(const XS& s) { uint32_t m = 0; for (auto c : decode(s)) m |= 1u << classOf(c); return m; }
inline std::string maskNames(uint32_t m, bool withAscii = false) {
    std::string r; for (int k = withAscii ? 0 : 1; k < C_N; ++k) if (m & (1u << k)) { if (!r.empty()) r += "+"; r += CLS_NAME[k]; }
    return r;
}
inline bool isXmlWs(uint32_t c) { return c == 0x20 || c == 9 || c == 10 || c == 13; }
inline bool xml10Char(uint32_t c) { return c == 9 || c == 10 || c == 13 || (c >= 0x20 && c <= 0xD7FF) || (c >= 0xE000 && c <= 0xFFFD) || (c >= 0x10000 && c <= 0x10FFFF); }

// ------------------------------------------------------------------ what an encoding can represent (asked of ICU directly)
struct EncInfo {
    std::string name; bool known = false, all = true; UConverter* cnv = nullptr; xercesc::XMLTranscoder* xt = nullptr; std::unordered_map<uint32_t, bool> cache, cacheFb;
    std::string family;    // utf8 | utf16 | other
    bool can(uint32_t cp) {
        if (all) return true;
        auto it = cache.find(cp);      // ASCII is asked too: ibm-943 has no backslash and no tilde if (it != cache.end()) return it->second;
        UChar src[2]; int n = 0; if (cp >= 0x10000) { src[n++] = (UChar)(0xD800 + ((cp - 0x10000) >> 10)); src[n++] = (UChar)(0xDC00 + ((cp - 0x10000) & 0x3FF)); } else src[n++] = (UChar)cp;
        char dst[32]; UErrorCode e = U_ZERO_ERROR; ucnv_resetFromUnicode(cnv);
        int32_t len = ucnv_fromUChars(cnv, dst, sizeof dst, src, n, &e);
        bool ok = !U_FAILURE(e) && len > 0;
        cache[cp] = ok; return ok;
    }
    // not representable (ICU, strict), yet the Xerces transcoder the library asks answers "can transcode": best-fit mappings (fullwidth forms
    // to ASCII) and default-ignorable code points (U+00AD, U+202D, ...), which the conversion then replaces or drops without a trace
    bool lossyCan(uint32_t cp) {
        if (all || !xt || can(cp)) return false;
        auto it = cacheFb.find(cp); if (it != cacheFb.end()) return it->second;
        bool ok = false; try { ok = xt->canTranscodeTo(cp); } catch (...) {}
        cacheFb[cp] = ok; return ok;
    }
};
inline bool ieq(const std::string& a, const char* b) { if (a.size() != strlen(b)) return false; for (size_t i = 0; i < a.size(); ++i) if (tolower((unsigned char)a[i]) != tolower((unsigned char)b[i])) return false; return true; }
inline EncInfo& encInfo(const std::string& name) {
    static std::map<std::string, EncInfo> cache;
    auto it = cache.find(name); if (it != cache.end()) return it->second;
    EncInfo& e = cache[name]; e.name = name;
    if (name.empty() || ieq(name, "UTF-8")) { e.known = true; e.all = true; e.family = "utf8"; return e; }
    if (ieq(name, "UTF-16") || ieq(name, "UTF-16LE") || ieq(name, "UTF-16BE")) { e.known = true; e.all = true; e.family = "utf16"; return e; }
    UErrorCode ec = U_ZERO_ERROR; UConverter* c = ucnv_open(name.c_str(), &ec);
    if (U_FAILURE(ec) || !c) { e.known = false; e.all = true; e.family = "utf8"; return e; }   // the library documents a fall-back to UTF-8
    ucnv_setFromUCallBack(c, UCNV_FROM_U_CALLBACK_STOP, nullptr, nullptr, nullptr, &ec);
    e.known = true; e.all = false; e.cnv = c; e.family = "other";
    { xercesc::XMLTransService::Codes rc; try { e.xt = xercesc::XMLPlatformUtils::fgTransService->makeNewTranscoderFor(name.c_str(), rc, 1024); } catch (...) { e.xt = nullptr; } }
    return e;
}


// ------------------------------------------------------------------ classes used in violation signatures: what the serializers branch on
// (relative to the target encoding and XML version), coarser than the classes above
enum SCls { S_ASCII, S_LTAMP, S_GT, S_QUOT, S_RSB, S_TAB, S_LF, S_CR, S_C0, S_NUL, S_C1, S_NEL, S_LSEP, S_NONASCII, S_SUPP, S_UNENC, S_SURR, S_NONCHAR, S_LOSSYCAN, S_UNENC_ASCII, S_N };
static const char* const SCLS_NAME[S_N] = { "ascii", "lt-amp", "gt", "quot", "rsb", "TAB", "LF", "CR", "c0", "nul", "c1", "NEL", "LSEP", "nonascii", "supp", "unencodable", "surrogate", "nonchar", "lossy-can", "ascii-unencodable" };
inline SCls sigClassOf(uint32_t c, EncInfo& enc, bool v11) {
    if (c == 0) return S_NUL; if (c == 9) return S_TAB; if (c == 10) return S_LF; if (c == 13) return S_CR; if (c < 0x20) return S_C0;
    if (c == '<' || c == '&') return S_LTAMP; if (c == '>') return S_GT; if (c == '"' || c == '\'') return S_QUOT; if (c == ']') return S_RSB;
    if (c < 0x7F) return enc.can(c) ? S_ASCII : S_UNENC_ASCII;      // ibm-943 has no backslash and no tilde
    if (c >= 0xD800 && c <= 0xDFFF) return S_SURR; if (c == 0xFFFE || c == 0xFFFF) return S_NONCHAR;
    if (v11) { if (c == 0x85) return S_NEL; if (c <= 0x9F) return S_C1; if (c == 0x2028) return S_LSEP; }
    if (!enc.can(c)) return enc.lossyCan(c) ? S_LOSSYCAN : S_UNENC;
    return c >= 0x10000 ? S_SUPP : S_NONASCII;
}
inline uint32_t sigMask(const XS& s, EncInfo& enc, bool v11) { uint32_t m = 0; for (auto c : decode(s)) m |= 1u << sigClassOf(c, enc, v11); return m; }
// replace every character of signature class k by 'x' (a supplementary character by "xx": same number of UTF-16 units)
// (in names: by a letter derived from the character, so that two different names stay different)
inline XS replaceSigClass(const XS& s, int k, EncInfo& enc, bool v11, bool inName = false) {
    XS r; for (auto c : decode(s)) { if (sigClassOf(c, enc, v11) == k) { char16_t x = inName ? (char16_t)(u'a' + c % 26) : u'x'; r += x; if (c >= 0x10000) r += x; } else appendCp(r, c); }
    return r;
}

} // namespace c04
