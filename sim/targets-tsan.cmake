# C07 only.  core.cpp and c07.cpp are instrumented by ThreadSanitizer; sched.cpp is not (its futex hand-over must
# create no happens-before edge); none of them gets function-entry hooks (only libxalan-c does).
add_library(simcore STATIC core.cpp)
# core.cpp holds the interposed clock()/time()/rand() (SimClock), which tasks enter concurrently by design of the
# simulation; it is driver infrastructure and stays uninstrumented like the scheduler
target_compile_options(simcore PRIVATE -fno-sanitize=thread)
add_library(simsched STATIC sched.cpp)
target_compile_options(simsched PRIVATE -fno-sanitize=thread)
add_executable(c07 c07.cpp)
target_compile_options(c07 PRIVATE -fsanitize=thread)
target_link_libraries(c07 simcore simsched ${SIMLIBS})
set_target_properties(c07 PROPERTIES BUILD_RPATH "${XALAN_BLD}/src/xalanc")
