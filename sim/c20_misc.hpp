// C20 — XalanDOMStringPool, XalanDOMStringHashTable, XalanBitmap, XalanObjectCache against small std models.
#pragma once
#include "c20_common.hpp"
#include "c20_string.hpp"
#include <memory>

namespace c20 {

typedef std::u16string U16;
typedef std::map<U16, const XalanDOMString*> PtrMap;

inline std::string showKeys(const PtrMap& m) { std::string r = "{"; for (auto& kv : m) { if (r.size() > 1) r += ' '; r += show(kv.first); } return r + "}"; }

// ================================================================================================== XalanDOMStringPool
struct PoolRun {
    Run& R; xalanc::XalanDOMStringPool* p; PtrMap m;
    explicit PoolRun(Run& r) : R(r), p(0) {
        R.apiClass = "XalanDOMStringPool";
        const Json& kn = R.plan.at("knobs");
        size_t block = (size_t)(kn.num("block", 2) & 63); if (!block) block = 1;
        size_t buckets = (size_t)(kn.num("buckets", 3) & 127); if (!buckets) buckets = 1;
        size_t bsize = (size_t)(kn.num("bsize", 1) & 15);
        p = new xalanc::XalanDOMStringPool(R.mm, (xalanc::XalanDOMStringPool::block_size_type)block, buckets, bsize);
    }
    U16 key() const { U16 s = strOf((int)(R.uarg("k") % 14)); if (R.op->str("op") == "get_ptr_n" && !s.empty()) s = s.substr(0, 1 + R.uarg("n") % s.size()); return s; }
    void skip() { R.res.count("skipped-ops"); R.tr.ev("skip " + R.kind); }
    void step() {
        const std::string o = R.op->str("op"); R.kind = o; R.opChanged = true;
        R.stateClass = m.empty() ? "empty" : m.size() < 4 ? "few" : "many";
        PtrMap post = m; const U16 k = key(); const XalanDOMString* got = 0; const bool known = m.count(k) != 0;
        if (o == "get_str" || o == "get_ptr" || o == "get_ptr_n") {
            TmpStr x(k, R.mm); R.kind = o + (k.empty() ? "-empty-string" : known ? "-known" : "-new");
            if (o == "get_str") R.call([&] { got = &p->get(x.s); });
            else if (o == "get_ptr") R.call([&] { got = &p->get(x.s.c_str()); });
            else R.call([&] { got = &p->get(strOf((int)(R.uarg("k") % 14)).c_str(), (XalanDOMString::size_type)k.size()); });
            if (!R.threw) {
                if (!got || U16(got->c_str(), got->length()) != k) R.bad("returned-string", "get() returned " + (got ? show(U16(got->c_str(), got->length())) : std::string("null")) + " for " + show(k));
                else if (known && got != m[k]) R.bad("identity", "get() of a pooled string returned a different object");
                else if (!known && !k.empty()) { for (auto& kv : m) if (kv.second == got) R.bad("identity", "get() of a new string returned the object of another string"); post[k] = got; }
            }
        } else if (o == "clear") { post.clear(); R.call([&] { p->clear(); }); }
        else { R.kind = "unknown-op"; return skip(); }
        // observable state: which candidate strings the pool's table finds, and where
        PtrMap S; std::set<U16> cand; for (auto& kv : m) cand.insert(kv.first); for (auto& kv : post) cand.insert(kv.first); if (!k.empty()) cand.insert(k);
        for (auto& c : cand) { TmpStr x(c, R.mm); const XalanDOMString* f = p->getHashTable().find(x.s); if (f) { S[c] = f; if (U16(f->c_str(), f->length()) != c) R.bad("pooled-content", "pooled string changed: " + show(c)); } }
        auto sameKeys = [](const PtrMap& x, const PtrMap& y) { if (x.size() != y.size()) return false; auto i = x.begin(); auto j = y.begin(); for (; i != x.end(); ++i, ++j) if (i->first != j->first) return false; return true; };
        if (!R.fired) { if (!sameKeys(S, post)) R.mismatch("pool contents", "expected " + showKeys(post) + " got " + showKeys(S)); }
        else if (!sameKeys(S, post) && !sameKeys(S, m)) R.corrupt("state", "pool holds " + showKeys(S));
        for (auto& kv : S) { auto it = post.find(kv.first); if (it != post.end() && it->second && it->second != kv.second) R.bad("identity", "table finds another object for " + show(kv.first)); }
        if (p->size() != S.size() || p->getHashTable().size() != S.size()) R.bad("size", "size() is " + std::to_string(p->size()) + ", table size " + std::to_string(p->getHashTable().size()) + ", strings found " + std::to_string(S.size()));
        m = S;
        uint64_t h = 0xcbf29ce484222325ULL; for (auto& kv : m) h = sim::fnv1a(kv.first.data(), kv.first.size() * 2, h);
        R.finishOp(m.size(), h);
    }
    void finish() { R.phase = "destroy"; delete p; p = 0; }
};

// ================================================================================================== XalanDOMStringHashTable
struct HashTableRun {
    Run& R; xalanc::XalanDOMStringHashTable* t; size_t buckets; std::vector<std::unique_ptr<TmpStr> > owned; PtrMap first; size_t count;
    explicit HashTableRun(Run& r) : R(r), t(0), count(0) {
        R.apiClass = "XalanDOMStringHashTable";
        const Json& kn = R.plan.at("knobs");
        buckets = (size_t)(kn.num("buckets", 3) & 127); if (!buckets) buckets = 1;
        t = new xalanc::XalanDOMStringHashTable(R.mm, buckets, (size_t)(kn.num("bsize", 1) & 15));
    }
    void skip() { R.res.count("skipped-ops"); R.tr.ev("skip " + R.kind); }
    void step() {
        const std::string o = R.op->str("op"); R.kind = o; R.opChanged = true; R.stateClass = count == 0 ? "empty" : count < buckets ? "sparse" : "crowded";
        const U16 k = strOf((int)(R.uarg("k") % 14)); PtrMap post = first; size_t postCount = count;
        if (o == "insert" || o == "insert_idx") {
            owned.emplace_back(new TmpStr(k, R.mm)); const XalanDOMString& s = owned.back()->s;
            R.kind = o + (first.count(k) ? "-duplicate" : "-new");
            if (!post.count(k)) post[k] = &s; ++postCount;
            if (o == "insert") R.call([&] { t->insert(s); });
            else { size_t idx = 0; t->find(s, &idx); R.call([&] { t->insert(s, idx); }); }
        } else if (o == "find") {
            TmpStr x(k, R.mm); const XalanDOMString* f = 0; size_t idx = ~size_t(0);
            R.kind = first.count(k) ? "find-present" : "find-absent";
            if (R.arg("via")) R.call([&] { f = t->find(x.s.c_str(), (XalanDOMString::size_type)k.size(), &idx); }); else R.call([&] { f = t->find(x.s, &idx); });
            if (f != (first.count(k) ? first[k] : 0)) R.bad("find", "find(" + show(k) + ")");
            if (idx >= buckets) R.bad("bucket-index", "find() reported bucket " + std::to_string(idx) + " of " + std::to_string(buckets));
        } else if (o == "clear") { post.clear(); postCount = 0; R.call([&] { t->clear(); }); }
        else { R.kind = "unknown-op"; return skip(); }
        PtrMap S; for (int id = 0; id < 14; ++id) { const U16 c = strOf(id); TmpStr x(c, R.mm); const XalanDOMString* f = t->find(x.s); if (f) S[c] = f; }
        const bool isPost = S == post && t->size() == postCount, isPre = S == first && t->size() == count;
        if (!R.fired) { if (!isPost) R.mismatch("table contents", "size() " + std::to_string(t->size()) + " expected " + std::to_string(postCount) + "; found " + showKeys(S) + " expected " + showKeys(post)); }
        else if (!isPost && !isPre) R.corrupt("state", "size() " + std::to_string(t->size()) + "; found " + showKeys(S));
        first = S; count = t->size();
        xalanc::XalanDOMStringHashTable::BucketCountsType bc(R.mm); t->getBucketCounts(bc);
        size_t sum = 0; for (size_t i = 0; i < bc.size(); ++i) sum += bc[i];
        if (bc.size() != buckets || t->bucketCount() != buckets || sum != count) R.bad("bucket-counts", "bucket counts sum to " + std::to_string(sum) + " with size() " + std::to_string(count));
        R.finishOp(count, sim::fnv1a(&sum, sizeof sum) ^ first.size());
    }
    void finish() { R.phase = "destroy"; delete t; t = 0; owned.clear(); }
};

// ================================================================================================== XalanBitmap
struct BitmapRun {
    Run& R; xalanc::XalanBitmap* bm; std::vector<bool> m;
    explicit BitmapRun(Run& r) : R(r), bm(0) {
        R.apiClass = "XalanBitmap";
        const size_t n = (size_t)(R.plan.at("knobs").num("bits", 9) & 127);
        bm = new xalanc::XalanBitmap(R.mm, n); m.assign(n, false);
    }
    void skip() { R.res.count("skipped-ops"); R.tr.ev("skip " + R.kind); }
    void step() {
        const std::string o = R.op->str("op"); R.kind = o; R.opChanged = true; const size_t n = m.size();
        R.stateClass = n == 0 ? "zero-bits" : n % 8 == 0 ? "whole-units" : "partial-last-unit";
        if (o == "clear_all") { m.assign(n, false); R.call([&] { bm->clearAll(); }); }
        else {
            if (!n) return skip(); const size_t bit = R.arg("edge") ? n - 1 - (R.uarg("i") % std::min<size_t>(n, 2)) : R.uarg("i") % n;
            if (o == "set") { m[bit] = true; R.call([&] { bm->set(bit); }); }
            else if (o == "clear") { m[bit] = false; R.call([&] { bm->clear(bit); }); }
            else if (o == "toggle") { m[bit] = !m[bit]; R.call([&] { bm->toggle(bit); }); }
            else { R.kind = "unknown-op"; return skip(); }
        }
        if (bm->getSize() != n) R.bad("size", "getSize()");
        std::vector<int> bits; for (size_t i = 0; i < n; ++i) { const bool s = bm->isSet(i); bits.push_back(s); if (s != m[i]) { R.bad("bit", "bit " + std::to_string(i) + " of " + std::to_string(n) + " reads " + std::to_string(s)); m[i] = s; } }
        R.finishOp(n, hashSeq(bits));
    }
    void finish() { R.phase = "destroy"; delete bm; bm = 0; }
};

// ================================================================================================== XalanObjectCache
struct CacheRun {
    typedef xalanc::XalanObjectCache<XalanDOMString, xalanc::DefaultCacheCreateFunctorMemMgr<XalanDOMString>, xalanc::DeleteFunctor<XalanDOMString>, xalanc::ClearCacheResetFunctor<XalanDOMString> > Cache;
    Run& R; Cache* c; std::vector<XalanDOMString*> avail, out; size_t created;
    explicit CacheRun(Run& r) : R(r), c(0), created(0) {
        R.apiClass = "XalanObjectCache";
        c = new Cache(R.mm, (xalanc::XalanSize_t)(R.plan.at("knobs").num("init", 0) & 7));
    }
    void skip() { R.res.count("skipped-ops"); R.tr.ev("skip " + R.kind); }
    void step() {
        const std::string o = R.op->str("op"); R.kind = o; R.opChanged = true;
        R.stateClass = std::string(avail.empty() ? "none-available" : "some-available") + (out.empty() ? "+none-out" : "+some-out");
        if (o == "get") {
            XalanDOMString* g = 0; R.kind = avail.empty() ? "get-creates" : "get-reuses";
            R.call([&] { g = c->get(); });
            if (!R.threw) {
                if (!g) { R.bad("get", "get() returned null"); R.stop = true; return; }
                if (!avail.empty()) { if (g != avail.back()) R.bad("get", "get() did not hand out the most recently released object"); std::vector<XalanDOMString*>::iterator it = std::find(avail.begin(), avail.end(), g); if (it != avail.end()) avail.erase(it); }
                else { ++created; if (std::find(out.begin(), out.end(), g) != out.end()) R.bad("get", "get() handed out an object that is already in use"); }
                if (!g->empty()) R.bad("reset", "object from the cache is not empty");
                if (std::find(out.begin(), out.end(), g) == out.end()) out.push_back(g);
                const U16 mark = strOf((int)(R.uarg("v") % 12) + 1); g->assign(mark.data(), (XalanDOMString::size_type)mark.size());
            }
        } else if (o == "release") {
            if (out.empty()) return skip(); const size_t i = R.uarg("i") % out.size(); XalanDOMString* g = out[i]; bool ok = false; const uint64_t refused0 = R.mm.refused;
            R.call([&] { ok = c->release(g); });
            // release() is called from destructors and must not throw: when its list cannot grow it destroys the instance instead of remembering it
            if (!R.threw && R.mm.refused > refused0) { if (!ok) R.bad("release", "release() returned false"); out.erase(out.begin() + i); R.res.count("probe:cache-release-with-refused-allocation"); }
            else if (!R.threw) { if (!ok) R.bad("release", "release() returned false"); if (!g->empty()) R.bad("reset", "released object was not cleared"); out.erase(out.begin() + i); avail.push_back(g); }
            else R.bad("release-threw", "release() let an exception out; it is called from destructors");
        } else if (o == "reset") { R.call([&] { c->reset(); }); }
        else { R.kind = "unknown-op"; return skip(); }
        R.finishOp(out.size(), (uint64_t)avail.size() * 131 + created);
    }
    void finish() {
        R.phase = "destroy";
        // objects still handed out belong to the caller: give them back, then destroy the cache
        while (!out.empty()) { XalanDOMString* g = out.back(); out.pop_back(); c->release(g); }
        delete c; c = 0;
    }
};

} // namespace c20
