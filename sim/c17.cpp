// C17 — xsl:number counts per XSLT 1.0 section 7.7, independent of evaluation history (and of the clock).
// The visiting order of the nodes is a seeded permutation (xsl:sort on a random rank attribute), the LRU stamp of the
// match-pattern cache comes from the simulated clock; the oracle is an independent implementation of section 7.7 in
// this driver over its own parse of the document.
#include "xform.hpp"
#include <sstream>
#include <cmath>

using namespace sim;
using namespace xalanc;

namespace {

// ----------------------------------------------------------------------------- the driver's own tree
struct TNode { std::string name, qname, id; bool hasK = false; int parent = -1; std::vector<int> kids; int idx = 0; int sibAll = 0, sibKept = 0; };   // sibAll / sibKept: sibling nodes of any kind before this element (adjacent text merged); sibKept leaves out white-space-only text   // name = expanded name "{uri}local"
struct Tree { std::vector<TNode> n; std::map<std::string, int> byId; };

void buildTree(const xercesc::DOMNode* d, int parent, Tree& t) {
    int all = 0, kept = 0; bool inText = false, textWs = true;
    auto endText = [&]() { if (inText) { ++all; if (!textWs) ++kept; } inText = false; textWs = true; };
    for (const xercesc::DOMNode* c = d->getFirstChild(); c; c = c->getNextSibling()) {
        const auto ty = c->getNodeType();
        if (ty == xercesc::DOMNode::TEXT_NODE || ty == xercesc::DOMNode::CDATA_SECTION_NODE) { inText = true; for (const XMLCh* q = c->getNodeValue(); q && *q; ++q) if (*q != 0x20 && *q != 0x9 && *q != 0xA && *q != 0xD) textWs = false; continue; }
        endText();
        if (ty == xercesc::DOMNode::COMMENT_NODE || ty == xercesc::DOMNode::PROCESSING_INSTRUCTION_NODE) { ++all; ++kept; continue; }
        if (ty != xercesc::DOMNode::ELEMENT_NODE) continue;
        TNode x; x.qname = narrowU8(c->getNodeName()); x.parent = parent; x.idx = (int)t.n.size(); x.sibAll = all; x.sibKept = kept; ++all; ++kept;
        { const XMLCh* u = c->getNamespaceURI(); std::string uri = u ? narrowU8(u) : std::string(); x.name = uri.empty() ? narrowU8(c->getLocalName()) : "{" + uri + "}" + narrowU8(c->getLocalName()); }
        const xercesc::DOMNamedNodeMap* m = c->getAttributes();
        for (XMLSize_t i = 0; m && i < m->getLength(); ++i) { std::string an = narrowU8(m->item(i)->getNodeName()); if (an == "id") x.id = narrowU8(m->item(i)->getNodeValue()); else if (an == "k") x.hasK = true; }
        int me = x.idx; t.n.push_back(x); if (parent >= 0) t.n[parent].kids.push_back(me); t.byId[t.n[me].id] = me;
        buildTree(c, me, t);
    }
}
bool parseTree(const std::string& xml, Tree& t) {
    xercesc::XercesDOMParser p; QuietErrorHandler eh; p.setErrorHandler(&eh); p.setDoNamespaces(true); p.setValidationScheme(xercesc::XercesDOMParser::Val_Never); p.setLoadExternalDTD(false);
    xercesc::MemBufInputSource src((const XMLByte*)xml.data(), xml.size(), "doc", false);
    try { p.parse(src); } catch (...) { return false; }
    if (eh.failed || !p.getDocument()) return false;
    buildTree(p.getDocument(), -1, t); return true;
}

// ----------------------------------------------------------------------------- patterns of the generated shapes
struct Alt { std::string name; bool needK = false; };     // name "*" = any element
struct Pat { bool present = false; std::vector<Alt> alts; std::string text; };
Pat parsePat(const std::string& s) {
    Pat p; if (s.empty()) return p; p.present = true; p.text = s; std::stringstream ss(s); std::string a;
    while (std::getline(ss, a, '|')) { Alt x; { size_t q = a.find("[position()"); if (q != std::string::npos) { size_t e = a.find(']', q); a.erase(q, e == std::string::npos ? std::string::npos : e - q + 1); } }      // [position() > 0] holds for every node: the pattern evaluates position() in a context list of its own
        size_t b = a.find("[@k]"); if (b != std::string::npos) { x.needK = true; a = a.substr(0, b); } if (a.compare(0, 3, "p1:") == 0) a = std::string("{") + NS1 + "}" + a.substr(3); else if (a.compare(0, 3, "p2:") == 0) a = std::string("{") + NS2 + "}" + a.substr(3);   // the stylesheet binds p1 and p2 like the document root does
        x.name = a; p.alts.push_back(x); }
    return p;
}
bool matches(const Pat& p, const TNode& n) { for (auto& a : p.alts) if ((a.name == "*" || a.name == n.name) && (!a.needK || n.hasK)) return true; return false; }
// count pattern with the default of 7.7: same node type and expanded-name as the current node
bool matchesCount(const Pat& p, const TNode& n, const TNode& cur) { return p.present ? matches(p, n) : n.name == cur.name; }

int precedingSiblingsMatching(const Tree& t, int x, const Pat& cnt, const TNode& cur) {
    int par = t.n[x].parent; int c = 0; if (par < 0) return 0;
    for (int s : t.n[par].kids) { if (s == x) break; if (matchesCount(cnt, t.n[s], cur)) ++c; }
    return c;
}
bool isAncestor(const Tree& t, int a, int x) { for (int p = t.n[x].parent; p >= 0; p = t.n[p].parent) if (p == a) return true; return false; }

// Section 7.7.  Returns false when the Recommendation's wording leaves the case open (then only history-independence is checked).
// attr = the current node is the attribute k of element c (attributes follow their element and precede its children in document
// order; the generated patterns only match elements, the default count pattern matches the attributes named k).
bool expected(const Tree& t, int c, bool attr, const std::string& level, const Pat& cnt, const Pat& from, std::vector<int>& out, std::string& relClass) {
    const TNode& cur = t.n[c]; out.clear(); relClass = "nofrom";
    auto elemCounts = [&](const TNode& n) { return attr ? (cnt.present && matches(cnt, n)) : matchesCount(cnt, n, cur); };
    int f = -1;   // scope node from the from pattern
    if (from.present) {
        if (!attr && matches(from, cur)) { relClass = "self-matches-from"; return false; }
        if (level == "any") {
            // "only nodes after the first node before the current node that match the from pattern are considered"
            for (int i = attr ? c : c - 1; i >= 0; --i) if (matches(from, t.n[i])) { f = i; break; }    // document order = index order; nodes before c are preceding or ancestors
            if (f < 0) { relClass = "no-from-before"; return false; }
            relClass = (f == c || isAncestor(t, f, c)) ? "from-is-ancestor" : "from-is-preceding";
        } else {
            for (int p = attr ? c : cur.parent; p >= 0; p = t.n[p].parent) if (matches(from, t.n[p])) { f = p; break; }
            if (f < 0) { relClass = "no-from-ancestor"; return false; }
            relClass = "from-is-ancestor";
        }
    }
    if (attr && cnt.text == "@k|*") {
        // the count pattern matches the attribute itself and every element: the attribute, then its ancestors-or-self and the elements before it
        if (level == "single") { out.push_back(1); return true; }      // the attribute is the first ancestor-or-self that matches; it has no siblings
        if (level == "multiple") { std::vector<int> rev; rev.push_back(1); Pat star; star.present = true; Alt a; a.name = "*"; star.alts.push_back(a); for (int x = c; x >= 0 && x != f; x = t.n[x].parent) rev.push_back(1 + precedingSiblingsMatching(t, x, star, cur)); out.assign(rev.rbegin(), rev.rend()); return true; }
        int k = 1; for (int i = (f < 0 ? 0 : f + 1); i <= c; ++i) ++k; out.push_back(k); return true;
    }
    if (attr && !cnt.present) {
        // default count pattern of an attribute: attributes with the same name.  An attribute has no siblings.
        // level="any" counts within the union of the preceding and ancestor-or-self axes, which hold no attribute but the current one
        out.push_back(1); return true;
    }
    if (level == "single") {
        for (int x = c; x >= 0 && x != f; x = t.n[x].parent) if (elemCounts(t.n[x])) { out.push_back(1 + precedingSiblingsMatching(t, x, cnt, cur)); break; }
    } else if (level == "multiple") {
        std::vector<int> rev; for (int x = c; x >= 0 && x != f; x = t.n[x].parent) if (elemCounts(t.n[x])) rev.push_back(1 + precedingSiblingsMatching(t, x, cnt, cur));
        out.assign(rev.rbegin(), rev.rend());
    } else {
        int k = 0; for (int i = (f < 0 ? 0 : f + 1); i <= c; ++i) if (elemCounts(t.n[i])) ++k;
        if (k == 0) { relClass += ":zero"; return false; }     // "a list of length one containing 0" vs empty: left open
        out.push_back(k);
    }
    return true;
}

// ----------------------------------------------------------------------------- decoding formatted numbers
int decodeAlpha(const std::string& s, char base) { int v = 0; for (char ch : s) { if (ch < base || ch >= base + 26) return -1; v = v * 26 + (ch - base + 1); } return v; }
int decodeRoman(std::string s, bool upper) {
    static const std::pair<int, const char*> tab[] = { {1000,"m"},{900,"cm"},{500,"d"},{400,"cd"},{100,"c"},{90,"xc"},{50,"l"},{40,"xl"},{10,"x"},{9,"ix"},{5,"v"},{4,"iv"},{1,"i"} };
    for (auto& ch : s) { if (upper) { if (ch < 'A' || ch > 'Z') return -1; ch = (char)(ch - 'A' + 'a'); } else if (ch < 'a' || ch > 'z') return -1; }
    int v = 0; size_t p = 0;
    for (auto& e : tab) { size_t l = strlen(e.second); while (s.compare(p, l, e.second) == 0) { v += e.first; p += l; } }
    return p == s.size() && v > 0 ? v : -1;
}
int decodeToken(const std::string& s, const std::string& tok) {
    if (s.empty()) return -1;
    if (tok == "1" || tok == "01") { for (char ch : s) if (ch < '0' || ch > '9') return -1; if (tok == "01" && s.size() < 2) return -1; return atoi(s.c_str()); }
    if (tok == "a") return decodeAlpha(s, 'a'); if (tok == "A") return decodeAlpha(s, 'A');
    if (tok == "i") return decodeRoman(s, false); if (tok == "I") return decodeRoman(s, true);
    return -1;
}
bool decodeList(const std::string& v, const std::string& tok, std::vector<int>& out) {
    out.clear(); if (v.empty()) return true; std::stringstream ss(v); std::string part;
    while (std::getline(ss, part, '.')) { int n = decodeToken(part, tok); if (n < 0) return false; out.push_back(n); }
    return v.back() != '.';
}
std::string listStr(const std::vector<int>& l) { std::string s; for (size_t i = 0; i < l.size(); ++i) { if (i) s += "."; s += std::to_string(l[i]); } return s; }

// the value expressions the generator emits, evaluated on the driver's tree
double valueOf(const Tree& t, int c, const std::string& e) {
    int prec = 0; for (int i = 0; i < c; ++i) if (!isAncestor(t, i, c)) ++prec;           // preceding::* = before in document order and not an ancestor
    int anc = 0; for (int p = t.n[c].parent; p >= 0; p = t.n[p].parent) ++anc;
    int kids = (int)t.n[c].kids.size(); int ps = 0; if (t.n[c].parent >= 0) for (int s : t.n[t.n[c].parent].kids) { if (s == c) break; ++ps; }
    if (e == "count(preceding::*) div 2") return prec / 2.0; if (e == "(count(preceding::*) + count(ancestor::*)) div 4") return (prec + anc) / 4.0;
    if (e == "count(*) + 0.5") return kids + 0.5; if (e == "count(preceding-sibling::*) * 1.5 + 1") return ps * 1.5 + 1;
    if (e == "count(preceding::*) * 97 + 650") return prec * 97.0 + 650; if (e == "(count(preceding::*) + 1) * 676") return (prec + 1) * 676.0; if (e == "count(preceding::*) * 13 + 1900") return prec * 13.0 + 1900;
    if (e == "position()") return c + 1;      // the instruction sits in xsl:for-each select="//*": in the reference history (document order, unsorted) the position is the index
    if (e.compare(0, 15, "xalan:evaluate(") == 0) return prec + 1; if (e.compare(0, 22, "number(xalan:evaluate(") == 0) return prec + 2 + kids;      // a string made at run time, converted to a number
    if (e == "count(preceding::*) * 2 + 4503599627370497") return prec * 2.0 + 4503599627370497.0;      // odd integers above 2^52: exact in a double, and round() must leave them alone
    if (e == "(count(preceding::*) + 1) * 98765432101") return (prec + 1) * 98765432101.0; if (e == "count(preceding::*) * 1234567 + 123456789012") return prec * 1234567.0 + 123456789012.0; if (e == "(count(preceding::*) + 1) * 987654321") return (prec + 1) * 987654321.0;
    return prec + 1;
}
// digits grouped from the right: what xsl:number grouping-separator / grouping-size asks for
std::string grouped(const std::string& digits, const std::string& sep, size_t size) {
    if (!size || sep.empty()) return digits; std::string r; size_t n = digits.size();
    for (size_t i = 0; i < n; ++i) { r += digits[i]; size_t left = n - 1 - i; if (left && left % size == 0) r += sep; }
    return r;
}

std::string shapeOf(const std::string& pat) { if (pat.empty()) return "default"; if (pat == "*") return "star"; if (pat.find('|') != std::string::npos) return "union"; if (pat.find('[') != std::string::npos) return "pred"; return "name"; }

struct C17 : public Driver {
    const char* property() const override { return "C17"; }
    void init() override { xalanInitOnce(); }

    static std::string sheetFor(const Json& sets, const std::string& order, bool strip = false) {
        std::string s = "<?xml version=\"1.0\"?>\n<xsl:stylesheet version=\"1.0\" xmlns:xsl=\"http://www.w3.org/1999/XSL/Transform\" xmlns:p1=\"" + std::string(NS1) + "\" xmlns:p2=\"" + NS2 + "\" xmlns:xalan=\"http://xml.apache.org/xalan\" exclude-result-prefixes=\"p1 p2 xalan\"><xsl:output method=\"xml\" encoding=\"UTF-8\" indent=\"no\"/>\n<xsl:template match=\"/\"><out>";
        if (strip) { size_t q = s.find("<xsl:template"); if (q != std::string::npos) s.insert(q, "<xsl:strip-space elements=\"*\"/><xsl:preserve-space elements=\"item p1:q\"/>"); }
        s += "<xsl:for-each select=\"//*\">"; std::string extra;
        if (order == "rk") s += "<xsl:sort select=\"@rk\" data-type=\"number\"/>";
        else if (order == "rev") s += "<xsl:sort select=\"position()\" data-type=\"number\" order=\"descending\"/>";
        else if (order == "deep") s += "<xsl:sort select=\"count(ancestor::*)\" data-type=\"number\" order=\"descending\"/><xsl:sort select=\"@rk\" data-type=\"number\"/>";
        for (size_t i = 0; i < sets.a.size(); ++i) {
            const Json& p = sets.a[i]; std::string attrs = " level=\"" + p.str("level") + "\"";
            if (!p.str("count").empty()) attrs += " count=\"" + p.str("count") + "\""; if (!p.str("from").empty()) attrs += " from=\"" + p.str("from") + "\"";
            if (!p.str("value").empty()) attrs = " value=\"" + p.str("value") + "\"";
            if (p.num("gsize", 0)) attrs += " grouping-separator=\"" + p.str("gsep") + "\" grouping-size=\"" + std::to_string(p.num("gsize")) + "\"";
            if (p.boolean("varcount")) {
                // the count pattern refers to a parameter of the template the instruction sits in; the template is called twice per node
                const std::string nm = "vn" + std::to_string(i);
                extra += "<xsl:template name=\"" + nm + "\"><xsl:param name=\"t\" select=\"0\"/><xsl:number level=\"" + p.str("level") + "\" count=\"*[@k or $t = 1]\"" + (p.str("from").empty() ? std::string() : " from=\"" + p.str("from") + "\"") + " format=\"1\"/></xsl:template>";
                for (int tv = 0; tv < 2; ++tv) s += std::string("<o f=\"") + (tv ? "v" : "s") + std::to_string(i) + "\" n=\"{@id}\"><xsl:call-template name=\"" + nm + "\"><xsl:with-param name=\"t\" select=\"" + std::to_string(tv) + "\"/></xsl:call-template></o>";
                continue;
            }
            const bool at = p.boolean("attr"); const std::string idsel = at ? "{../@id}" : "{@id}";
            // position() as value: evaluated in a variable right after an instruction whose count pattern asks for position() in the sibling list, with
            // no other expression in between (every location path evaluated in between would renew the execution context's idea of the position)
            if (p.str("value") == "position()") {
                const std::string v = "pv" + std::to_string(i);
                s += "<xsl:variable name=\"" + v + "\"><xsl:number level=\"single\" count=\"*[position() &gt; 0]\"/>/<xsl:number value=\"position()\" format=\"1\"/>/<xsl:number value=\"position()\" format=\"" + p.str("token") + "\"/></xsl:variable>";
                s += "<o f=\"s" + std::to_string(i) + "\" n=\"{@id}\"><xsl:value-of select=\"substring-before(substring-after($" + v + ", '/'), '/')\"/></o><o f=\"t" + std::to_string(i) + "\" n=\"{@id}\"><xsl:value-of select=\"substring-after(substring-after($" + v + ", '/'), '/')\"/></o>";
                continue;
            }
            if (at) s += "<xsl:for-each select=\"@k\">";      // the current node of xsl:number is an attribute
            s += "<o f=\"s" + std::to_string(i) + "\" n=\"" + idsel + "\"><xsl:number" + attrs + " format=\"1\"/></o>";
            s += "<o f=\"t" + std::to_string(i) + "\" n=\"" + idsel + "\"><xsl:number" + attrs + " format=\"" + p.str("token") + (p.str("fsep", "").empty() ? std::string() : p.str("fsep") + p.str("token")) + "\"/></o>";
            if (at) s += "</xsl:for-each>";
        }
        s += "</xsl:for-each></out></xsl:template>" + extra + "</xsl:stylesheet>\n";
        return s;
    }

    Json makePlan(uint64_t verifSeed, uint64_t run, const std::string& tier) override {
        uint64_t seed = runSeed(verifSeed, "C17", run);
        Rng root(seed); Rng g = root.fork("gen"), gs = root.fork("sched");
        Json p = Json::object(); p["property"] = "C17"; p["run"] = (long long)run; p["seed"] = hex64(seed); p["tier"] = tier;
        const bool nsMode = run % 4 == 2;      // prefixed names, some subtrees re-binding the prefix: same QName, different expanded-name
        DocCfg dc; dc.ns = nsMode; dc.rebind = nsMode; dc.dtd = false; dc.exoticText = false; dc.maxNodes = (int)g.range(10, 150); dc.maxDepth = (int)g.range(3, 6); dc.maxFan = (int)g.range(2, 6);
        dc.manyNames = g.chance(1, 4); if (dc.manyNames) dc.maxNodes = (int)g.range(70, 150);
        GenDoc d = genDoc(g, dc); p["doc"] = d.xml;
        DocCfg dc2 = dc; dc2.maxNodes = (int)g.range(5, 40); GenDoc d2 = genDoc(g, dc2); p["doc2"] = d2.xml;     // a second document for the reused-transformer check
        auto name = [&]() { return d.names[g.below(d.names.size())]; };
        Json sets = Json::array(); int ns = (int)g.range(2, 4);
        static const std::vector<std::string> levels = { "single", "multiple", "any" }; static const std::vector<std::string> toks = { "1", "01", "a", "A", "i", "I" };
        for (int i = 0; i < ns; ++i) {
            Json s = Json::object(); s["level"] = g.pick(levels);
            unsigned c = (unsigned)g.below(7); std::string cnt;
            if (c == 0 || (dc.manyNames && c < 3)) cnt = ""; else if (c == 1) cnt = name(); else if (c == 2) cnt = "*"; else if (c == 3) cnt = name() + "|" + name(); else if (c == 4) cnt = name() + "[@k]"; else if (c == 5) cnt = "*[@k]"; else cnt = (g.chance(1, 2) ? std::string("*") : name()) + "[position() &gt; 0]";
            s["count"] = cnt; s["from"] = g.chance(1, 3) ? name() : std::string(); s["token"] = g.pick(toks);
            // a separator of its own between two format tokens: ASCII punctuation, or a character of the XML Extender class (not alphanumeric, so a separator)
            { Rng gs = g.fork("fsep"); static const std::vector<std::string> fs = { "-", ", ", "\xC2\xB7", "\xE3\x83\xBC", "\xE3\x80\x85", ":" }; if (gs.chance(1, 3)) s["fsep"] = gs.pick(fs); }
            // a fifth of the sets number by value expression instead (the rounding of xsl:number value=)
            if (g.chance(1, 5)) { static const std::vector<std::string> vals = { "count(preceding::*) div 2", "(count(preceding::*) + count(ancestor::*)) div 4", "count(*) + 0.5", "count(preceding-sibling::*) * 1.5 + 1", "count(preceding::*) + 1", "count(preceding::*) * 97 + 650", "(count(preceding::*) + 1) * 676", "count(preceding::*) * 13 + 1900", "position()", "position()", "xalan:evaluate(concat(&quot;'&quot;, count(preceding::*) + 1, &quot;'&quot;))", "number(xalan:evaluate(concat(&quot;'&quot;, count(preceding::*) + 2, &quot;'&quot;))) + count(*)" }; s["value"] = g.pick(vals); s["from"] = ""; s["count"] = ""; }
            else if (g.fork("nodecount").chance(1, 8)) { Rng gn = g.fork("nodecount2"); s["nodecount"] = true; s["count"] = "node()"; s["from"] = ""; s["level"] = gn.chance(1, 2) ? "single" : "multiple"; p["strip"] = gn.chance(2, 3); }      // siblings of every kind count; with xsl:strip-space the white-space-only text nodes do not
            else if (g.chance(1, 5)) { s["attr"] = true; if (g.chance(1, 3)) s["count"] = "@k|*"; }       // number the attribute k of every element that has one; a third with a pattern that matches it too
            else if (g.chance(1, 10)) { s["varcount"] = true; s["count"] = "*[@k]"; s["token"] = "1"; }      // count pattern with a variable reference; the oracle knows its two values
            else if (g.chance(1, 8)) { static const std::vector<std::string> big = { "count(preceding::*) * 2 + 4503599627370497", "(count(preceding::*) + 1) * 98765432101", "count(preceding::*) * 1234567 + 123456789012", "(count(preceding::*) + 1) * 987654321" }; static const std::vector<std::string> seps = { ",", ".", "'", " " };
                s["value"] = g.pick(big); s["from"] = ""; s["count"] = ""; s["token"] = "1"; s["gsep"] = g.pick(seps); s["gsize"] = (long long)g.range(1, 5); }      // nine to fourteen digits, grouped
            // position() as the value right after an instruction whose count pattern evaluates position() in a context list of its own
            if (s.str("value") == "position()") { Json h = Json::object(); h["level"] = g.chance(1, 2) ? "single" : "multiple"; h["count"] = std::string(g.chance(1, 2) ? "*" : name().c_str()) + "[position() &gt; 0]"; h["from"] = ""; h["token"] = "1"; sets.push(h); }
            sets.push(s);
        }
        p["sets"] = sets; p["ns_mode"] = nsMode; p["xerces_src"] = run % 4 == 1;
        { bool nc = false; for (auto& x : sets.a) if (x.boolean("nodecount")) nc = true;
          if (nc) { auto spaced = [](const std::string& x) { std::string o; for (size_t i = 0; i < x.size(); ++i) { o += x[i]; if (x[i] == '>' && i + 1 < x.size() && x[i + 1] == '<') o += "\n "; } return o; };      // white space between all tags: every element gets white-space-only text children
                    p["doc"] = spaced(p.str("doc")); p["doc2"] = spaced(p.str("doc2")); } }
        // histories: visiting orders x clock modes (the first is the reference)
        Json hist = Json::array(); static const std::vector<std::string> orders = { "doc", "rk", "rev", "deep" }; static const std::vector<std::string> clocks = { "advance", "coarse", "stall", "minus1", "back" };
        { Json h = Json::object(); h["order"] = "doc"; h["clock"] = "advance"; hist.push(h); }
        int nh = (int)gs.range(2, 4);
        for (int i = 0; i < nh; ++i) { Json h = Json::object(); h["order"] = gs.pick(orders); h["clock"] = gs.pick(clocks); h["every"] = (long long)gs.range(2, 50); h["delta"] = (long long)gs.range(1, 100); h["backAt"] = (long long)gs.range(1, 300); h["backBy"] = (long long)gs.range(1, 100000); h["rkseed"] = (long long)(gs.next() >> 8); hist.push(h); }
        p["histories"] = hist; p["reuse"] = gs.chance(1, 2);
        // a third of the runs: the document is parsed once and kept, and a numbering transformation that fails part-way (a count pattern
        // calling an unavailable function at one node) runs first on the same transformer and the same parsed source
        if (gs.chance(1, 3)) { p["poison"] = true; p["poison_node"] = d.ids[gs.below(std::max<size_t>(1, d.ids.size() > 3 ? d.ids.size() - 3 : 1))]; p["poison_level"] = gs.chance(1, 2) ? "any" : "single"; }
        return p;
    }

    // re-rank: the visiting permutation of history h (rank attribute rewritten from its own seed) keeps ids and structure
    static std::string rerank(const std::string& doc, uint64_t seed) {
        if (!seed) return doc; Rng r(seed); std::string out; size_t p = 0;
        for (;;) { size_t q = doc.find(" rk=\"", p); if (q == std::string::npos) { out += doc.substr(p); break; } size_t e = doc.find('"', q + 5); out += doc.substr(p, q - p) + " rk=\"" + std::to_string(r.below(1000000)) + "\""; p = e + 1; }
        return out;
    }

    void execute(const Json& plan, Result& res, Trace& tr) override {
        Tree t; if (!parseTree(plan.str("doc"), t)) { res.harness("generated document does not parse"); return; }
        const Json& sets = plan.at("sets"); const Json& hist = plan.at("histories");
        SimMemoryManager mm; mm.reuse = plan.boolean("reuse");
        std::vector<std::map<std::string, std::string>> values;     // per history: "f|id" -> value
        {
            XEnv env(&mm);
            SourceHolder kept; const XalanParsedSource* pre = nullptr;
            const std::string srcForm = plan.boolean("xerces_src") ? "parsed-xerces" : "parsed";      // the numbering walk also runs over the Xerces-DOM-backed source tree
            if (plan.boolean("xerces_src")) res.count("source:xerces-dom");
            if (plan.boolean("poison")) {
                if (makeSource(env, srcForm, plan.str("doc"), SrcFault(), kept)) pre = kept.ps;
                if (pre) {
                    std::string px = "<?xml version=\"1.0\"?><xsl:stylesheet version=\"1.0\" xmlns:xsl=\"http://www.w3.org/1999/XSL/Transform\" xmlns:nofn=\"urn:x-nofn\"><xsl:template match=\"/\"><out><xsl:for-each select=\"(//*)[position() &gt; last() - 2]\"><o><xsl:number level=\"" + plan.str("poison_level", "any") + "\" count=\"*[not(@id = '" + plan.str("poison_node") + "') or nofn:none()]\"/></o></xsl:for-each></out></xsl:template></xsl:stylesheet>";
                    XReq rq; rq.doc = plan.str("doc"); rq.xsl = px; rq.srcForm = srcForm; SimSink sink; XformOut po = runTransform(env, rq, sink, pre);
                    res.count(po.ok() ? "poison:completed" : "fault:abort-inside-count-pattern"); tr.ev("poison st=" + std::to_string(po.status));
                }
            }
            for (size_t h = 0; h < hist.a.size(); ++h) {
                const Json& H = hist.a[h];
                g_clock.configure(H.str("clock", "advance"), H.num("delta", 1), H.num("every", 7), H.num("backAt"), H.num("backBy"));
                XReq rq; rq.doc = pre ? plan.str("doc") : rerank(plan.str("doc"), (uint64_t)H.num("rkseed")); rq.xsl = sheetFor(sets, H.str("order", "doc"), plan.boolean("strip")); SimSink sink; if (pre || plan.boolean("xerces_src")) rq.srcForm = srcForm;
                XformOut o = runTransform(env, rq, sink, pre);
                res.count("transforms"); res.count("simclock_ticks", (int64_t)g_clock.calls); if (H.str("clock") != "advance") res.count("fault:clock-" + H.str("clock")); res.count("order:" + H.str("order"));
                if (mm.reuse) res.count("fault:addr-reuse");
                std::map<std::string, std::string> m;
                if (!o.ok()) { res.violate("transform-failed", H.str("clock") + ":" + H.str("order"), "status " + std::to_string(o.status) + " " + o.exc + " [" + o.err.substr(0, 300) + "]"); values.push_back(m); tr.ev("h" + std::to_string(h) + " failed"); continue; }
                for (auto& ob : parseObs(o.bytes)) m[ob.f + "|" + ob.n] = ob.v;
                values.push_back(m);
                tr.ev("h" + std::to_string(h) + " " + H.str("order") + "/" + H.str("clock") + " out=" + hex64(fnvStr(o.bytes)));
            }
            // stale counters: a second document on the same transformer must number like on a fresh one
            g_clock.reset();
            { XReq rq; rq.doc = plan.str("doc2"); rq.xsl = sheetFor(sets, "doc", plan.boolean("strip")); SimSink s1, s2; XformOut a = runTransform(env, rq, s1); XEnv fresh; XformOut b = runTransform(fresh, rq, s2);
              if (a.status != b.status || a.bytes != b.bytes) { std::string d; std::string f = firstObsDiff(b.bytes, a.bytes, &d); res.violate("stale-counters", f.substr(0, 1), "second document on the reused transformer vs a fresh transformer: " + d); }
              tr.ev("doc2 " + hex64(fnvStr(a.bytes))); }
            kept.release();
            env.destroyTransformer();
        }
        g_clock.reset();
        if (values.empty() || values[0].empty()) return;
        // ---- oracle 1 and 4 on the reference history; oracle 2 across histories
        for (size_t i = 0; i < sets.a.size(); ++i) {
            const Json& S = sets.a[i]; Pat cnt = parsePat(S.str("count")), from = parsePat(S.str("from")); std::string level = S.str("level"), tok = S.str("token");
            std::string shape = (S.str("value").empty() ? level : std::string("value")) + "|" + shapeOf(S.str("count")) + "|" + (from.present ? "from" : "nofrom") + (S.boolean("attr") ? "|attr" : "");
            res.tag(shape + "|" + tok);
            for (size_t c = 0; c < t.n.size(); ++c) {
                const std::string& id = t.n[c].id; std::string ks = "s" + std::to_string(i) + "|" + id, kt = "t" + std::to_string(i) + "|" + id;
                const bool at = S.boolean("attr"); if (at && !t.n[c].hasK) continue; if (at) res.count("numbered_attribute_nodes");
                auto it = values[0].find(ks); if (it == values[0].end()) { res.violate("missing-record", shape, "no record for node " + id); break; }
                const std::string& got = it->second;
                if (S.num("gsize", 0)) {
                    // grouped output of a large value: digits and group structure
                    const double xv = valueOf(t, (int)c, S.str("value")); const double fl = std::floor(xv); const long long v = (long long)(xv - fl >= 0.5 ? fl + 1 : fl); const std::string want = grouped(std::to_string(v), S.str("gsep"), (size_t)S.num("gsize"));
                    res.count("numbered_nodes"); res.count("oracle_decided"); res.count("grouped_values");
                    if (got != want) res.violate("definition-mismatch", "value|grouping|" + std::string(got.size() < want.size() ? "short" : got.size() > want.size() ? "long" : "differs"), "node " + id + ": xsl:number value=" + std::to_string(v) + " grouping-separator='" + S.str("gsep") + "' grouping-size=" + std::to_string(S.num("gsize")) + " gives [" + got + "], expected [" + want + "]");
                    for (size_t h = 1; h < values.size(); ++h) { auto jt = values[h].find(ks); if (values[h].empty()) continue; if (jt == values[h].end() || jt->second != got) { res.violate("history-dependent", shape + "|" + hist.a[h].str("clock"), "node " + id + ": grouped value [" + got + "] in the reference history, [" + (jt == values[h].end() ? std::string("<missing>") : jt->second) + "] in order '" + hist.a[h].str("order") + "' with clock '" + hist.a[h].str("clock") + "'"); break; } }
                    continue;
                }
                std::vector<int> exp; std::string rel; bool decided;
                if (!S.str("value").empty()) { double v = valueOf(t, (int)c, S.str("value")); long r = (long)std::floor(v + 0.5); decided = r >= 1; exp.clear(); if (decided) exp.push_back((int)r); rel = "value"; level = "value"; }
                else if (S.boolean("nodecount")) {
                    // count="node()": every ancestor-or-self element matches, and so does every sibling node of any kind - but not the white-space-only text
                    // nodes xsl:strip-space removes from the tree (children of item and p1:q keep theirs)
                    const bool strip = plan.boolean("strip"); decided = true; rel = strip ? "nodecount-strip" : "nodecount"; exp.clear();
                    auto pos = [&](int x) { const int par = t.n[x].parent; const bool preserved = par >= 0 && (t.n[par].name == "item" || t.n[par].name == std::string("{") + NS1 + "}q"); return 1 + ((strip && !preserved) ? t.n[x].sibKept : t.n[x].sibAll); };
                    if (level == "single") exp.push_back(pos((int)c)); else { std::vector<int> rev; for (int x = (int)c; x >= 0; x = t.n[x].parent) rev.push_back(pos(x)); exp.assign(rev.rbegin(), rev.rend()); }
                }
                else decided = expected(t, (int)c, at, level, cnt, from, exp, rel);
                res.count("numbered_nodes");
                if (decided) {
                    res.count("oracle_decided");
                    std::string dir = "differs"; { std::vector<int> gl; if (decodeList(got, "1", gl)) { if (exp.empty() && !gl.empty()) dir = "spurious"; else if (!exp.empty() && gl.empty()) dir = "missing"; else if (gl.size() != exp.size()) dir = "length"; else if (gl > exp) dir = "over"; else dir = "under"; } }
                    // signature: level, relation of the from match to the node (or the count shape when there is no from), direction of the error
                    std::string dsig = level + "|" + (from.present ? "from:" + rel : "nofrom:" + shapeOf(S.str("count"))) + "|" + dir;
                    if (got != listStr(exp)) res.violate("definition-mismatch", dsig, "node " + id + " <" + t.n[c].qname + ">" + (at ? "/@k" : "") + " (" + t.n[c].name + "): xsl:number level=" + level + " count='" + S.str("count") + "' from='" + S.str("from") + "' gives [" + got + "], section 7.7 gives [" + listStr(exp) + "]");
                } else res.count("oracle_open:" + rel);
                if (S.boolean("varcount")) {
                    // second call of the same instruction for the same node, with the parameter that makes the pattern match every element
                    Pat all = parsePat("*"); std::vector<int> e2; std::string rel2; auto vt = values[0].find("v" + std::to_string(i) + "|" + id);
                    if (expected(t, (int)c, false, level, all, from, e2, rel2) && vt != values[0].end() && vt->second != listStr(e2))
                        res.violate("definition-mismatch", level + "|" + (from.present ? "from:" + rel2 : std::string("nofrom:varcount")) + "|" + [&]() { std::vector<int> gl; if (!decodeList(vt->second, "1", gl)) return std::string("differs"); if (e2.empty() && !gl.empty()) return std::string("spurious"); if (!e2.empty() && gl.empty()) return std::string("missing"); if (gl.size() != e2.size()) return std::string("length"); return std::string(gl > e2 ? "over" : "under"); }(), "node " + id + ": xsl:number level=" + level + " count='*[@k or $t = 1]' gives [" + vt->second + "] when called with t = 1 right after the call with t = 0, section 7.7 gives [" + listStr(e2) + "]");
                    for (size_t h = 1; h < values.size(); ++h) { auto jt = values[h].find("v" + std::to_string(i) + "|" + id); if (values[h].empty() || vt == values[0].end()) continue; if (jt == values[h].end() || jt->second != vt->second) { res.violate("history-dependent", shape + "|varcount|" + hist.a[h].str("clock"), "node " + id + " (t = 1): [" + vt->second + "] in the reference history, [" + (jt == values[h].end() ? std::string("<missing>") : jt->second) + "] in order '" + hist.a[h].str("order") + "'"); break; } }
                }
                // format round trip
                auto ft = values[0].find(kt);
                bool positive = !got.empty(); for (char ch : got) if (ch != '.' && (ch < '0' || ch > '9')) positive = false; if (got == "0" || got.compare(0, 2, "0.") == 0) positive = false;   // values below 0.5 are printed as plain numbers: not a list to decode
                // roman numerals end at 3999 (Xalan prints "#error" beyond; XSLT 1.0 does not say what else to do): not decoded
                if (positive && (tok == "i" || tok == "I")) { std::vector<int> pl; if (decodeList(got, "1", pl)) for (int v : pl) if (v > 3999) { positive = false; res.count("oracle_open:roman-above-3999"); break; } }
                if (ft != values[0].end() && (positive || got.empty())) { std::vector<int> dec, plain; bool okp = decodeList(got, "1", plain);
                    std::string shown = ft->second; { const std::string fsep = S.str("fsep", ""); if (!fsep.empty() && shown.find('.') == std::string::npos) { size_t q; while ((q = shown.find(fsep)) != std::string::npos) shown.replace(q, fsep.size(), "."); } else if (!fsep.empty()) shown = "?"; }
                    if (!decodeList(shown, tok, dec) || (okp && dec != plain)) res.violate("format-roundtrip", tok, "node " + id + ": format='" + tok + "' gives [" + ft->second + "] for the number list [" + got + "]"); else res.count("format_decoded"); }
                // history independence (position() is, by definition, a function of the visiting order)
                for (size_t h = 1; h < values.size() && S.str("value") != "position()"; ++h) {
                    auto jt = values[h].find(ks); if (values[h].empty()) continue;
                    if (jt == values[h].end() || jt->second != got) { res.violate("history-dependent", shape + "|" + hist.a[h].str("clock"), "node " + id + ": [" + got + "] when numbered in document order with an advancing clock, [" + (jt == values[h].end() ? std::string("<missing>") : jt->second) + "] in order '" + hist.a[h].str("order") + "' with clock '" + hist.a[h].str("clock") + "' (level=" + level + " count='" + S.str("count") + "' from='" + S.str("from") + "')"); break; }
                }
            }
        }
        if (mm.foreignFrees || mm.doubleFrees) res.violate("bad-free", mm.firstBadFree, "memory manager saw " + mm.firstBadFree);
    }
};

} // namespace

int main(int argc, char** argv) { C17 d; return driverMain(argc, argv, d); }
