// C20 — Xalan's containers and string class behave like their standard models.
// One run = one history of <= 80 operations on one container kind (XalanVector, XalanList, XalanDeque, XalanMap,
// XalanSet, XalanDOMString, XalanDOMStringPool, XalanDOMStringHashTable, XalanBitmap, XalanObjectCache) with one
// element type (int, XalanDOMString, counting type), executed in lock-step against a std:: model on a
// SimMemoryManager.  Mode A: fault-free, strict equality after every operation.  Mode B: some operations carry
// "fault": k (k-th allocation inside the operation is refused); the narrow relaxation is described in c20_common.hpp.
#include "c20_common.hpp"      // must be first: compiles the Xalan headers with assertions enabled
#include "c20_seq.hpp"
#include "c20_map.hpp"
#include "c20_string.hpp"
#include "c20_misc.hpp"
#include <sys/wait.h>
#include <sys/mman.h>
#include <cerrno>

using namespace sim;
using namespace c20;

// Assertions of the Xalan headers end up here (this definition pre-empts libc's).
extern "C" void __assert_fail(const char* expr, const char* file, unsigned int line, const char* func) noexcept {
    AbortCtx& a = abortCtx();
    if (!a.armed) { fprintf(stderr, "assertion `%s' failed outside a run: %s:%u %s\n", expr, file, line, func); fflush(stderr); _exit(70); }
    copyz(a.expr, sizeof a.expr, expr); copyz(a.file, sizeof a.file, file); copyz(a.func, sizeof a.func, func); a.line = line;
    siglongjmp(a.jb, ABORT_ASSERT);
}

namespace {

// ------------------------------------------------------------------------------------------------ generator
struct OpSpec { const char* name; unsigned weight; const char* args; };
// argument letters: i j n m = small integers, v = element id, k = key id, K = key id from a wide pool, c = code unit,
// s = literal text, V = list of element ids, r = relation of the text to the current contents, h = variant selector,
// a = alternative spelling (operator form), e = keep flag, f = self flag, t = stride, p = capacity
const OpSpec VECTOR_OPS[] = {
    { "push_back", 14, "v" }, { "pop_back", 5, "" }, { "insert", 10, "iv" }, { "insert_n", 6, "inv" }, { "insert_range", 6, "iV" },
    { "erase", 8, "i" }, { "erase_range", 5, "in" }, { "assign_range", 3, "V" }, { "resize", 6, "nv" }, { "resize_default", 3, "n" },
    { "reserve", 4, "n" }, { "clear", 2, "" }, { "swap", 3, "" }, { "assign_from_b", 3, "" }, { "assign_to_b", 3, "" }, { "self_assign", 1, "" },
    { "copy_ctor", 3, "pe" }, { "ctor_fill", 2, "nv" }, { "ctor_range", 2, "V" }, { "set", 4, "iv" }, { "at", 3, "i" }, { "iterate", 2, "" },
    { "compare", 2, "" }, { "push_back_alias", 2, "j" }, { "insert_alias", 2, "ij" }, { 0, 0, 0 } };
const OpSpec LIST_OPS[] = {
    { "push_back", 12, "v" }, { "push_front", 8, "v" }, { "pop_back", 5, "" }, { "pop_front", 5, "" }, { "insert", 10, "iv" }, { "erase", 9, "i" },
    { "set", 3, "iv" }, { "clear", 2, "" }, { "swap", 4, "" }, { "splice_one", 6, "ijf" }, { "splice_range", 6, "ijnf" }, { 0, 0, 0 } };
const OpSpec DEQUE_OPS[] = {
    { "push_back", 20, "v" }, { "pop_back", 10, "" }, { "resize", 5, "n" }, { "clear", 2, "" }, { "swap", 4, "" }, { "assign_from_b", 3, "" },
    { "assign_to_b", 3, "" }, { "self_assign", 1, "" }, { "copy_ctor", 3, "e" }, { "set", 4, "iv" }, { "iterate", 3, "" }, { 0, 0, 0 } };
const OpSpec MAP_OPS[] = {
    { "insert", 16, "kv" }, { "insert_pair", 4, "kv" }, { "index_set", 8, "kv" }, { "index_read", 4, "k" }, { "find", 4, "k" }, { "erase_key", 14, "k" },
    { "erase_iter", 5, "k" }, { "set_via_iter", 3, "kv" }, { "insert_range", 3, "kntv" }, { "erase_range", 3, "knt" }, { "clear", 1, "" }, { "swap", 3, "" },
    { "assign_from_b", 2, "" }, { "assign_to_b", 3, "" }, { "self_assign", 1, "" }, { "copy_ctor", 3, "e" }, { 0, 0, 0 } };
const OpSpec SET_OPS[] = {
    { "insert", 14, "K" }, { "erase", 12, "K" }, { "find", 4, "K" }, { "insert_range", 8, "KNt" }, { "erase_range", 8, "KNt" }, { "clear", 1, "" },
    { "assign_from_b", 1, "" }, { "assign_to_b", 2, "" }, { "copy_ctor", 2, "e" }, { 0, 0, 0 } };
const OpSpec STRING_OPS[] = {
    { "assign_str", 4, "sra" }, { "assign_ptr", 3, "sa" }, { "assign_ptr_n", 2, "sn" }, { "assign_sub", 2, "sin" }, { "assign_self_sub", 3, "in" }, { "assign_self", 1, "a" },
    { "assign_fill", 2, "nc" }, { "assign_char", 1, "c" }, { "assign_iter", 2, "s" }, { "assign_iter_self", 2, "in" }, { "assign_narrow", 2, "sa" }, { "assign_narrow_n", 1, "sn" },
    { "append_str", 8, "sa" }, { "append_ptr", 4, "sa" }, { "append_ptr_n", 3, "sn" }, { "append_sub", 3, "sin" }, { "append_sub_npos", 2, "si" }, { "append_self", 2, "a" },
    { "append_fill", 4, "nc" }, { "push_back", 8, "ca" }, { "append_narrow", 2, "s" }, { "append_narrow_n", 1, "sn" },
    { "insert_str", 5, "is" }, { "insert_ptr", 3, "is" }, { "insert_ptr_n", 2, "ism" }, { "insert_sub", 2, "isjm" }, { "insert_self", 2, "i" }, { "insert_fill", 3, "imc" },
    { "insert_it_char", 3, "ic" }, { "insert_it_fill", 2, "imc" }, { "insert_it_range", 2, "is" },
    { "erase", 7, "in" }, { "erase_npos", 2, "i" }, { "erase_all", 1, "" }, { "erase_it", 3, "i" }, { "erase_it_range", 3, "in" }, { "clear", 2, "" },
    { "resize", 6, "nc" }, { "resize_default", 2, "n" }, { "reserve", 3, "n" }, { "swap", 3, "" }, { "assign_to_b", 2, "" }, { "set_char", 3, "ica" },
    { "copy_ctor", 2, "" }, { "clone", 1, "" }, { "sub_ctor", 2, "in" }, { "sub_ctor_npos", 1, "i" }, { "ctor_fill", 1, "nc" }, { "ctor_ptr", 1, "s" }, { "ctor_ptr_n", 1, "sn" }, { "ctor_narrow", 1, "s" },
    { "substr", 3, "in" }, { "substr_npos", 2, "i" }, { "substr_self", 2, "in" },
    { "compare", 6, "srminjh" }, { "equals", 3, "srm" }, { "at", 3, "i" }, { "length_static", 1, "" }, { "transcode", 1, "" }, { 0, 0, 0 } };
const OpSpec POOL_OPS[] = { { "get_str", 10, "k" }, { "get_ptr", 6, "k" }, { "get_ptr_n", 4, "kn" }, { "clear", 1, "" }, { 0, 0, 0 } };
const OpSpec HASHTABLE_OPS[] = { { "insert", 10, "k" }, { "insert_idx", 5, "k" }, { "find", 6, "ka" }, { "clear", 1, "" }, { 0, 0, 0 } };
const OpSpec BITMAP_OPS[] = { { "set", 10, "ig" }, { "clear", 6, "ig" }, { "toggle", 6, "ig" }, { "clear_all", 1, "" }, { 0, 0, 0 } };
const OpSpec CACHE_OPS[] = { { "get", 10, "v" }, { "release", 9, "i" }, { "reset", 1, "" }, { 0, 0, 0 } };

const int ALPHABET[] = { 'a', 'b', 'c', 'x', 'y', 'z', 'a', 'b', 0xE9, 0x20AC, 0xD83D, 0xDE00, 0xFFFF, 1 };

struct Gen {
    Rng g, gf; bool modeB; bool wideInts;
    Gen(const Rng& root, bool b) : g(root.fork("gen")), gf(root.fork("faults")), modeB(b), wideInts(false) {}
    int val() { return g.chance(1, 10) ? 0 : 1 + (int)g.below(9); }
    Json text() { Json a = Json::array(); unsigned n = (unsigned)g.below(7); if (g.chance(1, 12)) n += 8; for (unsigned i = 0; i < n; ++i) a.push(ALPHABET[g.below(sizeof ALPHABET / sizeof ALPHABET[0])]); return a; }
    Json ids() { Json a = Json::array(); unsigned n = (unsigned)g.below(6); for (unsigned i = 0; i < n; ++i) a.push(val()); return a; }
    void fill(Json& o, const char* args) {
        for (const char* p = args; *p; ++p) switch (*p) {
        case 'i': o["i"] = (int)g.below(16); break;
        case 'j': o["j"] = (int)g.below(16); break;
        case 'n': o["n"] = (int)g.below(14); break;
        case 'N': o["n"] = (int)(g.chance(1, 2) ? g.below(14) : 20 + g.below(45)); break;
        case 'm': o["m"] = (int)g.below(12); break;
        case 'v': o["v"] = val(); break;
        case 'k': o["k"] = (int)g.below(12); break;
        case 'K': { int k = (int)g.below(64); o["k"] = wideInts ? k * 29 : k; break; }
        case 'c': o["c"] = ALPHABET[g.below(sizeof ALPHABET / sizeof ALPHABET[0])]; break;
        case 's': o["s"] = text(); break;
        case 'V': o["vals"] = ids(); break;
        case 'r': o["rel"] = (int)(g.chance(1, 2) ? 0 : 1 + g.below(4)); break;
        case 'h': o["how"] = (int)g.below(6); break;
        case 'a': o["via"] = (int)g.below(2); break;
        case 'e': o["keep"] = (int)g.below(2); break;
        case 'f': o["self"] = (int)(g.chance(1, 3) ? 1 : 0); break;
        case 't': o["stride"] = (int)(g.chance(1, 2) ? 0 : g.below(31)); break;
        case 'p': o["cap"] = (int)g.below(12); break;
        case 'g': o["edge"] = (int)(g.chance(1, 4) ? 1 : 0); break;
        }
    }
    Json history(const OpSpec* table) {
        // swarm: each run drops a random quarter of the operation kinds (never the first, the basic inserter)
        std::vector<const OpSpec*> on; unsigned total = 0;
        for (const OpSpec* s = table; s->name; ++s) if (s == table || !g.chance(1, 4)) { on.push_back(s); total += s->weight; }
        Json ops = Json::array(); const unsigned len = (unsigned)g.range(8, 80);
        for (unsigned i = 0; i < len; ++i) {
            unsigned x = (unsigned)g.below(total); const OpSpec* s = on[0];
            for (const OpSpec* c : on) { if (x < c->weight) { s = c; break; } x -= c->weight; }
            Json o = Json::object(); o["op"] = s->name; fill(o, s->args);
            if (modeB) {                                   // drawn for every op so that the sub-stream does not depend on the op mix
                const bool f = gf.chance(3, 10); const unsigned r = (unsigned)gf.below(20);
                if (f) o["fault"] = (int)(r < 9 ? 1 : r < 15 ? 2 : r < 18 ? 3 : 4 + gf.below(5));
            }
            ops.push(o);
        }
        return ops;
    }
};

const char* const ELEMS[] = { "int", "string", "counting" };

// ------------------------------------------------------------------------------------------------ execution
struct ProgressOut { char cont[24]; char kind[64]; char phase[16]; int opIdx; };
ProgressOut* g_progress = 0;
inline void note(const Run& R) { if (!g_progress) return; copyz(g_progress->cont, sizeof g_progress->cont, R.cont.c_str()); copyz(g_progress->kind, sizeof g_progress->kind, R.kind.c_str()); copyz(g_progress->phase, sizeof g_progress->phase, R.phase.c_str()); g_progress->opIdx = (int)R.opIdx; }

template <class Runner> void runHistory(Run& R) {
    Runner* r = new Runner(R);                       // abandoned (never destroyed) when the history is aborted
    const Json& ops = R.plan.at("ops");
    for (size_t i = 0; i < ops.a.size() && !R.stop; ++i) {
        if (ops.a[i].t != Json::Obj) continue;
        R.opIdx = i; R.op = &ops.a[i]; R.phase = "op"; R.extraLive = 0; R.kind = ops.a[i].str("op"); R.stateClass = "";
        note(R);
        r->step();
    }
    R.op = 0; R.opIdx = ops.a.size(); R.kind = "destroy"; R.stateClass = ""; R.phase = "destroy"; R.fired = false;
    note(R);
    r->finish(); delete r;
    R.phase = "final";
}

template <template <class> class Runner> void byElem(Run& R) {
    if (R.elem == "string") runHistory<Runner<StrE> >(R); else if (R.elem == "counting") runHistory<Runner<CntE> >(R); else runHistory<Runner<IntE> >(R);
}
template <class KE> void mapByValue(Run& R, const std::string& ve) {
    if (ve == "string") runHistory<MapRun<KE, StrE> >(R); else if (ve == "counting") runHistory<MapRun<KE, CntE> >(R); else runHistory<MapRun<KE, IntE> >(R);
}

bool listed(const char* list, const std::string& m) {
    const std::string l = std::string(",") + list + ","; return l.find("," + m + ",") != std::string::npos;
}

struct C20 : public Driver {
    const char* property() const override { return "C20"; }
    void init() override {
        xalanInitOnce(); installHandlers();
        progress = (Progress*)mmap(nullptr, 4096, PROT_READ | PROT_WRITE, MAP_SHARED | MAP_ANONYMOUS, -1, 0);
        g_progress = progress;
    }

    Json makePlan(uint64_t verifSeed, uint64_t run, const std::string& tier) override {
        const uint64_t seed = runSeed(verifSeed, "C20", run);
        Rng root(seed); Rng gc = root.fork("config");
        Json p = Json::object();
        p["property"] = "C20"; p["run"] = (long long)run; p["seed"] = hex64(seed); p["tier"] = tier;
        static const struct { const char* name; unsigned w; const OpSpec* ops; } CONT[] = {
            { "map", 22, MAP_OPS }, { "vector", 18, VECTOR_OPS }, { "string", 22, STRING_OPS }, { "list", 9, LIST_OPS }, { "deque", 9, DEQUE_OPS },
            { "set", 8, SET_OPS }, { "stringpool", 4, POOL_OPS }, { "hashtable", 3, HASHTABLE_OPS }, { "bitmap", 2, BITMAP_OPS }, { "cache", 3, CACHE_OPS } };
        unsigned x = (unsigned)gc.below(100), ci = 0; while (x >= CONT[ci].w) { x -= CONT[ci].w; ++ci; }
        const std::string cont = CONT[ci].name;
        p["container"] = cont;
        const std::string elem = ELEMS[gc.below(3)], velem = ELEMS[gc.below(3)];
        const bool modeB = gc.chance(1, 2) && cont != "bitmap";
        if (cont == "string" || cont == "stringpool" || cont == "hashtable" || cont == "cache") p["elem"] = "string";
        else if (cont == "bitmap") p["elem"] = "bit";
        else p["elem"] = elem;
        if (cont == "map") p["velem"] = velem;
        p["mode"] = modeB ? "B" : "A";
        Json kn = Json::object();
        static const int SMALL[] = { 1, 1, 2, 2, 3, 3, 5, 7 };
        if (cont == "map") {
            kn["lfA"] = (int)gc.below(5); kn["lfB"] = (int)gc.below(5);
            kn["minA"] = gc.chance(1, 8) ? 29 : SMALL[gc.below(8)]; kn["minB"] = gc.chance(1, 8) ? 29 : SMALL[gc.below(8)];
            kn["etA"] = gc.chance(1, 8) ? 50 : SMALL[gc.below(8)]; kn["etB"] = gc.chance(1, 8) ? 50 : (gc.chance(1, 8) ? 0 : SMALL[gc.below(8)]);
            kn["hash"] = (int)(gc.chance(1, 2) ? 0 : gc.chance(3, 4) ? 1 : 2);
        } else if (cont == "set") { kn["hash"] = (int)(gc.chance(1, 2) ? 0 : gc.chance(3, 4) ? 1 : 2); kn["wide"] = (int)gc.below(2); }
        else if (cont == "vector" || cont == "string") kn["cap"] = (int)(gc.chance(1, 2) ? 0 : gc.below(9));
        else if (cont == "deque") { const int bs = SMALL[gc.below(7)]; kn["bsA"] = bs; kn["bsB"] = gc.chance(2, 3) ? bs : SMALL[gc.below(7)]; kn["init"] = (int)(gc.chance(1, 2) ? 0 : gc.below(6)); }
        else if (cont == "stringpool") { kn["block"] = gc.chance(1, 6) ? 32 : SMALL[gc.below(6)]; kn["buckets"] = gc.chance(1, 6) ? 101 : SMALL[gc.below(8)]; kn["bsize"] = gc.chance(1, 4) ? 15 : (int)gc.below(4); }
        else if (cont == "hashtable") { kn["buckets"] = gc.chance(1, 6) ? 101 : SMALL[gc.below(8)]; kn["bsize"] = gc.chance(1, 4) ? 15 : (int)gc.below(4); }
        else if (cont == "bitmap") { static const int BITS[] = { 0, 1, 7, 8, 9, 15, 16, 17, 31, 33, 64, 70 }; kn["bits"] = BITS[gc.below(12)]; }
        else if (cont == "cache") kn["init"] = (int)gc.below(4);
        p["knobs"] = kn;
        Gen gen(root, modeB); gen.wideInts = cont == "set" && kn.num("wide") != 0 && elem == "int";
        p["ops"] = gen.history(CONT[ci].ops);
        return p;
    }

    void dispatch(Run& R) {
        const std::string& c = R.cont;
        if (c == "vector") byElem<VecRun>(R);
        else if (c == "list") byElem<ListRun>(R);
        else if (c == "deque") byElem<DequeRun>(R);
        else if (c == "set") byElem<SetRun>(R);
        else if (c == "map") {
            const std::string ve = R.plan.str("velem", "int");
            if (R.elem == "string") mapByValue<StrE>(R, ve); else if (R.elem == "counting") mapByValue<CntE>(R, ve); else mapByValue<IntE>(R, ve);
        }
        else if (c == "string") runHistory<StringRun>(R);
        else if (c == "stringpool") runHistory<PoolRun>(R);
        else if (c == "hashtable") runHistory<HashTableRun>(R);
        else if (c == "bitmap") runHistory<BitmapRun>(R);
        else if (c == "cache") runHistory<CacheRun>(R);
        else R.res.harness("unknown container " + c);
    }

    void aborted(Run& R, int code) {
        AbortCtx& A = abortCtx();
        const std::string at = R.phase == "op" ? R.where() : R.phase;
        if (code == ABORT_ASSERT) {
            std::string file = A.file; size_t p = file.find("/src/xalanc/"); if (p != std::string::npos) file = file.substr(p + 5);
            const std::string fn = normSym(A.func);
            const std::string text = std::string("assertion `") + A.expr + "' failed at " + file + ":" + std::to_string(A.line) + " in " + fn + " during " + at;
            R.tr.ev("assert " + fn + " " + A.expr);
            const std::string cls = std::string(R.apiClass) + "::";
            if (fn.compare(0, cls.size(), cls) == 0 && listed(R.apiMethods, fn.substr(cls.size())))
                R.res.harness("the interpreter called " + fn + " outside its documented precondition: " + text);     // generator bug, never a verdict
            else
                R.res.violate("library-assert", R.cont + ":" + R.kind + ":" + fn, text + " (the asserting function is not one the harness calls directly: the library broke its own invariant)");
        } else if (code == ABORT_SIGNAL) {
            R.tr.ev("signal " + std::to_string(A.sig));
            R.res.violate("abnormal-termination", "signal" + std::to_string(A.sig) + ":" + R.cont + ":" + R.kind + ":" + R.phase + (R.fired || R.modeB ? "" : ""),
                          "signal " + std::to_string(A.sig) + " inside the library during " + at + (R.modeB ? " (mode B: an allocation had been refused earlier in this history: " + std::to_string(R.mm.refused) + ")" : ""));
        } else {
            R.tr.ev("watchdog");
            R.res.harness("watchdog: history did not finish within 60 s, during " + at);
        }
    }


    // ---- every history runs in a forked child of the pre-initialised worker: an AddressSanitizer report or a
    // std::terminate ends only that history, and the parent turns it into an ordinary violation record.
    static std::string slurp(int fd) { std::string s; lseek(fd, 0, SEEK_SET); char b[8192]; ssize_t n; while ((n = read(fd, b, sizeof b)) > 0) s.append(b, n); close(fd); return s; }
    static std::string asanSig(const std::string& err, std::string* kindOut) {
        std::string kind = "unknown"; size_t p = err.find("ERROR: AddressSanitizer: ");
        if (p != std::string::npos) { size_t e = err.find_first_of(" \n", p + 25); kind = err.substr(p + 25, e - (p + 25)); }
        if (kindOut) *kindOut = kind;
        std::vector<std::string> frames; bool started = false; size_t q = p == std::string::npos ? 0 : p;
        while (q < err.size() && frames.size() < 3) {
            size_t e = err.find('\n', q); if (e == std::string::npos) e = err.size();
            const std::string ln = err.substr(q, e - q); q = e + 1;
            size_t h = ln.find_first_not_of(' ');
            if (h != std::string::npos && ln[h] == '#' && ln.find(" in ") != std::string::npos) {
                started = true;
                size_t in = ln.find(" in ") + 4, sp = ln.rfind(' ');
                if (sp == std::string::npos || sp <= in) continue;
                const std::string fn = ln.substr(in, sp - in), file = ln.substr(sp + 1);
                if (file.find("/src/xalanc/") == std::string::npos) continue;
                const std::string f = normSym(fn);
                if (frames.empty() || frames.back() != f) frames.push_back(f);
            } else if (started && ln.find_first_not_of(" \t") == std::string::npos) break;
        }
        std::string sig = kind + ":"; if (frames.empty()) sig += "no-xalan-frame"; for (size_t i = 0; i < frames.size(); ++i) sig += (i ? "<" : "") + frames[i];
        return sig;
    }
    typedef ProgressOut Progress;
    Progress* progress = 0;

    void execute(const Json& plan, Result& res, Trace& tr) override {
        if (getenv("C20_NOFORK")) { executeHere(plan, res, tr); return; }
        const int rfd = memfd_create("c20res", 0), efd = memfd_create("c20err", 0);
        memset(progress, 0, sizeof *progress);
        fflush(stdout); fflush(stderr);
        const pid_t pid = fork();
        if (pid < 0) { res.harness("fork failed"); close(rfd); close(efd); return; }
        if (pid == 0) {
            dup2(efd, 2);
            std::set_terminate([] { _exit(78); });
            Result r2; r2.run = res.run; r2.seed = res.seed; Trace t2; t2.keep = tr.keep;
            ubsanReset();
            try { executeHere(plan, r2, t2); }
            catch (const std::exception& e) { r2.harness(std::string("exception escaped the interpreter: ") + e.what()); }
            catch (...) { r2.harness("unknown exception escaped the interpreter"); }
            for (auto& u : ubsanTake()) r2.violate("sanitizer:ubsan", u, "UndefinedBehaviorSanitizer report: " + u + " (" + progress->cont + ")");
            Json j = Json::object();
            j["status"] = r2.status; j["hdetail"] = r2.harnessDetail; j["hash"] = t2.hex(); j["events"] = (long long)t2.events;
            Json vl = Json::array(); for (auto& v : r2.viols) { Json o = Json::object(); o["c"] = v.cls; o["s"] = v.sig; o["d"] = v.detail; o["n"] = v.count; vl.push(o); }
            j["viols"] = vl; j["counters"] = r2.counters; j["tags"] = r2.tags;
            if (t2.keep) { Json l = Json::array(); for (auto& e : t2.log) l.push(e); j["log"] = l; }
            const std::string out = j.dump(); size_t off = 0;
            while (off < out.size()) { ssize_t w = write(rfd, out.data() + off, out.size() - off); if (w <= 0) break; off += (size_t)w; }
            _exit(0);
        }
        int st = 0; while (waitpid(pid, &st, 0) < 0 && errno == EINTR) {}
        const std::string raw = slurp(rfd), err = slurp(efd);
        const std::string at = std::string(progress->cont) + " op#" + std::to_string(progress->opIdx) + " " + progress->kind + " (" + progress->phase + ")";
        if (WIFEXITED(st) && WEXITSTATUS(st) == 0 && !raw.empty()) {
            Json j; try { j = Json::parse(raw); } catch (...) { res.harness("unparsable result from the child"); return; }
            res.status = j.str("status", "ok"); res.harnessDetail = j.str("hdetail");
            for (auto& v : j.at("viols").a) { Viol x; x.cls = v.str("c"); x.sig = v.str("s"); x.detail = v.str("d"); x.count = (int)v.num("n", 1); res.viols.push_back(x); }
            res.counters = j.at("counters"); if (res.counters.t != Json::Obj) res.counters = Json::object();
            res.tags = j.at("tags"); if (res.tags.t != Json::Arr) res.tags = Json::array();
            tr.h = strtoull(j.str("hash", "0").c_str(), nullptr, 16); tr.events = (size_t)j.num("events");
            if (tr.keep) for (auto& e : j.at("log").a) tr.log.push_back(e.s);
            return;
        }
        // the child died: one violation record, deterministic trace
        res.count("histories:" + std::string(progress->cont)); res.count("crashed-histories");
        std::string cls, sig, detail;
        if (WIFEXITED(st) && (WEXITSTATUS(st) == 77 || err.find("ERROR: AddressSanitizer") != std::string::npos)) {
            std::string kind; cls = "sanitizer:asan"; sig = asanSig(err, &kind);
            detail = "AddressSanitizer " + kind + " during " + at + "\n" + err.substr(0, 3500);
        } else if (WIFEXITED(st) && WEXITSTATUS(st) == 78) { cls = "abnormal-termination"; sig = std::string("terminate:") + progress->cont + ":" + progress->kind; detail = "std::terminate during " + at; }
        else if (WIFEXITED(st) && WEXITSTATUS(st) == 70) { res.harness("assertion outside a run in the child: " + err.substr(0, 400)); tr.ev("child-harness"); return; }
        else if (WIFSIGNALED(st)) { cls = "abnormal-termination"; sig = "signal" + std::to_string(WTERMSIG(st)) + ":" + progress->cont + ":" + progress->kind; detail = "child killed by signal " + std::to_string(WTERMSIG(st)) + " during " + at; }
        else { cls = "abnormal-termination"; sig = "exit" + std::to_string(WIFEXITED(st) ? WEXITSTATUS(st) : -1) + ":" + progress->cont + ":" + progress->kind; detail = "child exited without a result during " + at + "; stderr: " + err.substr(0, 600); }
        res.violate(cls, sig, detail);
        tr.ev("child-died " + cls + " " + sig);
    }

    void executeHere(const Json& plan, Result& res, Trace& tr) {
        Counted::resetStats(); hashMode() = 0;
        AbortCtx& A = abortCtx();
        Run* R = new Run(res, tr, plan);
        tr.ev("C20 " + R->cont + " " + R->elem + "/" + plan.str("velem", "-") + " mode " + plan.str("mode", "A") + " knobs " + plan.at("knobs").dump());
        res.count("histories:" + R->cont); res.count(std::string("mode:") + (R->modeB ? "B" : "A"));
        const int code = sigsetjmp(A.jb, 1);
        bool completed = false;
        if (code == 0) { A.armed = 1; alarm(60); dispatch(*R); alarm(0); A.armed = 0; completed = res.status != "harness-error" || true; }
        else { alarm(0); A.armed = 0; aborted(*R, code); res.count("aborted-histories"); }
        SimMemoryManager& mm = R->mm;
        if (code == 0 && completed && R->phase == "final") {
            R->kind = "destroy"; R->fired = mm.refused > 0;
            if (Counted::bad) R->lifetime("element-destroyed-twice-or-garbage", std::to_string(Counted::bad) + " destructions/reads of objects that were not live");
            if (Counted::live - R->liveBias != 0) R->lifetime("element-balance", std::to_string(Counted::live - R->liveBias) + " counting elements still alive after the containers were destroyed (constructions " + std::to_string(Counted::ctors) + ", destructions " + std::to_string(Counted::dtors) + ")");
            if (mm.liveBlocks != 0) {
                if (mm.refused == 0) res.violate("leak", R->cont, std::to_string(mm.liveBlocks) + " blocks (" + std::to_string(mm.liveBytes) + " bytes) still allocated after the containers were destroyed in a fault-free history");
                else res.count("blocks-outstanding-after-faulted-history", (int64_t)mm.liveBlocks);
            }
        }
        if (mm.foreignFrees) res.violate("bad-free", R->cont + ":foreign-free", std::to_string(mm.foreignFrees) + " deallocations of pointers this manager never handed out");
        if (mm.doubleFrees) res.violate("bad-free", R->cont + ":double-free", mm.firstBadFree);
        tr.ev("end allocs=" + std::to_string(mm.serial) + " refused=" + std::to_string(mm.refused) + " live=" + std::to_string(mm.liveBlocks));
        res.count("allocations", (int64_t)mm.serial);
        delete R;
    }
};

} // namespace

int main(int argc, char** argv) { C20 d; return driverMain(argc, argv, d); }
