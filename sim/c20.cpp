// C20 — Xalan's containers and string class behave like their standard models.
// One run = one history of <= 80 operations on one container kind (XalanVector, XalanList, XalanDeque, XalanMap,
// XalanSet, XalanDOMString, XalanDOMStringPool, XalanDOMStringHashTable, XalanBitmap, XalanObjectCache) with one
// element type (int, XalanDOMString, counting type), executed in lock-step against a std:: model on a
// SimMemoryManager.  Mode A: fault-free, strict equality after every operation.  Mode B: some operations carry
// "fault": k (k-th allocation inside the operation is refused); the narrow relaxation is described in c20_common.hpp.
#include "c20_common.hpp"      // must be first: compiles the Xalan headers with assertions enabled
#include "c20_seq.hpp"
#include "c20_map.hpp"
#include "c20_string.hpp"
#include "c20_misc.hpp"
#include <sys/wait.h>
#include <sys/mman.h>
#include <cerrno>

using namespace sim;
using namespace c20;

// Assertions of the Xalan headers end up here (this definition pre-empts libc's).
extern "C" void __assert_fail(const char* expr, const char* file, unsigned int line, const char* func) noexcept {
    AbortCtx& a = abortCtx();
    if (!a.armed) { fprintf(stderr, "assertion `%s' failed outside a run: %s:%u %s\n", expr, file, line, func); fflush(stderr); _exit(70); }
    copyz(a.expr, sizeof a.expr, expr); copyz(a.file, sizeof a.file, file); copyz(a.func, sizeof a.func, func); a.line = line;
    siglongjmp(a.jb, ABORT_ASSERT);
}

namespace {

// ------------------------------------------------------------------------------------------------ generator
struct OpSpec { const char* name; unsigned weight; const char* args; };
// argument letters: i j n m = small integers, v = element id, k = key id, K = key id from a wide pool, c = code unit,
// s = literal text, V = list of element ids, r = relation of the text to the current contents, h = variant selector,
// a = alternative spelling (operator form), e = keep flag, f = self flag, t = stride, p = capacity
const OpSpec VECTOR_OPS[] = {
    { "push_back", 14, "v" }, { "pop_back", 5, "" }, { "insert", 10, "iv" }, { "insert_n", 6, "inv" }, { "insert_range", 6, "iV" },
    { "erase", 8, "i" }, { "erase_range", 5, "in" }, { "assign_range", 3, "V" }, { "resize", 6, "nv" }, { "resize_alias", 3, "in" }, { "resize_default", 3, "n" },
    { "reserve", 4, "n" }, { "clear", 2, "" }, { "swap", 3, "" }, { "assign_from_b", 3, "" }, { "assign_to_b", 3, "" }, { "self_assign", 1, "" },
    { "copy_ctor", 3, "pe" }, { "ctor_fill", 2, "nv" }, { "ctor_range", 2, "V" }, { "set", 4, "iv" }, { "at", 3, "i" }, { "iterate", 2, "" },
    { "compare", 2, "" }, { "push_back_alias", 2, "j" }, { "insert_alias", 2, "ij" }, { 0, 0, 0 } };
const OpSpec LIST_OPS[] = {
    { "push_back", 12, "v" }, { "push_front", 8, "v" }, { "pop_back", 5, "" }, { "pop_front", 5, "" }, { "insert", 10, "iv" }, { "erase", 9, "i" },
    { "set", 3, "iv" }, { "clear", 2, "" }, { "swap", 4, "" }, { "splice_one", 6, "ijf" }, { "splice_range", 6, "ijnf" }, { 0, 0, 0 } };
const OpSpec DEQUE_OPS[] = {
    { "push_back", 20, "v" }, { "pop_back", 10, "" }, { "resize", 5, "n" }, { "clear", 2, "" }, { "swap", 4, "" }, { "assign_from_b", 3, "" },
    { "assign_to_b", 3, "" }, { "self_assign", 1, "" }, { "copy_ctor", 3, "e" }, { "set", 4, "iv" }, { "iterate", 3, "" }, { 0, 0, 0 } };
const OpSpec MAP_OPS[] = {
    { "insert", 16, "kv" }, { "insert_pair", 4, "kv" }, { "index_set", 8, "kv" }, { "index_read", 4, "k" }, { "find", 4, "k" }, { "erase_key", 14, "k" },
    { "erase_iter", 5, "k" }, { "set_via_iter", 3, "kv" }, { "insert_range", 3, "kntv" }, { "erase_range", 3, "knt" }, { "clear", 1, "" }, { "swap", 3, "" },
    { "assign_from_b", 2, "" }, { "assign_to_b", 3, "" }, { "self_assign", 1, "" }, { "copy_ctor", 3, "e" }, { 0, 0, 0 } };
const OpSpec SET_OPS[] = {
    { "insert", 14, "K" }, { "erase", 12, "K" }, { "find", 4, "K" }, { "insert_range", 8, "KNt" }, { "erase_range", 8, "KNt" }, { "clear", 1, "" },
    { "assign_from_b", 1, "" }, { "assign_to_b", 2, "" }, { "copy_ctor", 2, "e" }, { 0, 0, 0 } };
const OpSpec STRING_OPS[] = {
    { "assign_str", 4, "sra" }, { "assign_ptr", 3, "sa" }, { "assign_ptr_n", 2, "sn" }, { "assign_sub", 2, "sin" }, { "assign_self_sub", 3, "in" }, { "assign_self", 1, "a" },
    { "assign_fill", 2, "nc" }, { "assign_char", 1, "c" }, { "assign_iter", 2, "s" }, { "assign_iter_self", 2, "in" }, { "assign_narrow", 2, "sa" }, { "assign_narrow_n", 1, "sn" },
    { "append_str", 8, "sa" }, { "append_ptr", 4, "sa" }, { "append_ptr_n", 3, "sn" }, { "append_sub", 3, "sin" }, { "append_sub_npos", 2, "si" }, { "append_self", 2, "a" },
    { "append_fill", 4, "nc" }, { "push_back", 8, "ca" }, { "append_narrow", 2, "s" }, { "append_narrow_n", 1, "sn" },
    { "insert_str", 5, "is" }, { "insert_ptr", 3, "is" }, { "insert_ptr_n", 2, "ism" }, { "insert_sub", 2, "isjm" }, { "insert_self", 2, "i" }, { "insert_self_ptr", 2, "ijm" }, { "append_self_ptr", 2, "jm" }, { "assign_self_ptr", 1, "jm" }, { "insert_fill", 3, "imc" },
    { "insert_it_char", 3, "ic" }, { "insert_it_fill", 2, "imc" }, { "insert_it_range", 2, "is" },
    { "erase", 7, "in" }, { "erase_over", 2, "in" }, { "erase_npos", 2, "i" }, { "erase_all", 1, "" }, { "erase_it", 3, "i" }, { "erase_it_range", 3, "in" }, { "clear", 2, "" },
    { "resize", 6, "nc" }, { "resize_default", 2, "n" }, { "reserve", 3, "n" }, { "swap", 3, "" }, { "assign_to_b", 2, "" }, { "set_char", 3, "ica" },
    { "copy_ctor", 2, "" }, { "clone", 1, "" }, { "sub_ctor", 2, "in" }, { "sub_ctor_npos", 1, "i" }, { "ctor_fill", 1, "nc" }, { "ctor_ptr", 1, "s" }, { "ctor_ptr_n", 1, "sn" }, { "ctor_narrow", 1, "s" },
    { "substr", 3, "in" }, { "substr_npos", 2, "i" }, { "substr_self", 2, "in" },
    { "compare", 6, "srminjh" }, { "equals", 3, "srm" }, { "at", 3, "i" }, { "length_static", 1, "" }, { "transcode", 1, "" }, { 0, 0, 0 } };
const OpSpec POOL_OPS[] = { { "get_str", 10, "k" }, { "get_ptr", 6, "k" }, { "get_ptr_n", 4, "kn" }, { "clear", 1, "" }, { 0, 0, 0 } };
const OpSpec HASHTABLE_OPS[] = { { "insert", 10, "k" }, { "insert_idx", 5, "k" }, { "find", 6, "ka" }, { "clear", 1, "" }, { 0, 0, 0 } };
const OpSpec BITMAP_OPS[] = { { "set", 10, "ig" }, { "clear", 6, "ig" }, { "toggle", 6, "ig" }, { "clear_all", 1, "" }, { 0, 0, 0 } };
const OpSpec CACHE_OPS[] = { { "get", 10, "v" }, { "release", 9, "i" }, { "reset", 1, "" }, { 0, 0, 0 } };

const int ALPHABET[] = { 'a', 'b', 'c', 'x', 'y', 'z', 'a', 'b', 0xE9, 0x20AC, 0xD83D, 0xDE00, 0xFFFF, 1 };

struct Gen {
    Rng g, gf; bool modeB; bool wideInts;
    Gen(const Rng& root, bool b) : g(root.fork("gen")), gf(root.fork("faults")), modeB(b), wideInts(false) {}
    int val() { return g.chance(1, 10) ? 0 : 1 + (int)g.below(9); }
    Json text() { Json a = Json::array(); unsigned n = (unsigned)g.below(7); if (g.chance(1, 12)) n += 8; for (unsigned i = 0; i < n; ++i) a.push(ALPHABET[g.below(sizeof ALPHABET / sizeof ALPHABET[0])]); return a; }
    Json ids() { Json a = Json::array(); unsigned n = (unsigned)g.below(6); for (unsigned i = 0; i < n; ++i) a.push(val()); return a; }
    void fill(Json& o, const char* args) {
        for (const char* p = args; *p; ++p) switch (*p) {
        case 'i': o["i"] = (int)g.below(16); break;
        case 'j': o["j"] = (int)g.below(16); break;
        case 'n': o["n"] = (int)g.below(14); break;
        case 'N': o["n"] = (int)(g.chance(1, 2) ? g.below(14) : 20 + g.below(45)); break;
        case 'm': o["m"] = (int)g.below(12); break;
        case 'v': o["v"] = val(); break;
        case 'k': o["k"] = (int)g.below(12); break;
        case 'K': { int k = (int)g.below(64); o["k"] = wideInts ? k * 29 : k; break; }
        case 'c': o["c"] = ALPHABET[g.below(sizeof ALPHABET / sizeof ALPHABET[0])]; break;
        case 's': o["s"] = text(); break;
        case 'V': o["vals"] = ids(); break;
        case 'r': o["rel"] = (int)(g.chance(1, 2) ? 0 : 1 + g.below(4)); break;
        case 'h': o["how"] = (int)g.below(10); break;
        case 'a': o["via"] = (int)g.below(2); break;
        case 'e': o["keep"] = (int)g.below(2); break;
        case 'f': o["self"] = (int)(g.chance(1, 3) ? 1 : 0); break;
        case 't': o["stride"] = (int)(g.chance(1, 2) ? 0 : g.below(31)); break;
        case 'p': o["cap"] = (int)g.below(12); break;
        case 'g': o["edge"] = (int)(g.chance(1, 4) ? 1 : 0); break;
        }
    }
    Json history(const OpSpec* table) {
        // swarm: each run drops a random quarter of the operation kinds (never the first, the basic inserter)
        std::vector<const OpSpec*> on; unsigned total = 0;
        for (const OpSpec* s = table; s->name; ++s) if (s == table || !g.chance(1, 4)) { on.push_back(s); total += s->weight; }
        Json ops = Json::array(); const unsigned len = (unsigned)g.range(8, 80);
        for (unsigned i = 0; i < len; ++i) {
            unsigned x = (unsigned)g.below(total); const OpSpec* s = on[0];
            for (const OpSpec* c : on) { if (x < c->weight) { s = c; break; } x -= c->weight; }
            Json o = Json::object(); o["op"] = s->name; fill(o, s->args);
            if (modeB) {                                   // drawn for every op so that the sub-stream does not depend on the op mix
                const bool f = gf.chance(3, 10); const unsigned r = (unsigned)gf.below(20);
                if (f) o["fault"] = (int)(r < 9 ? 1 : r < 15 ? 2 : r < 18 ? 3 : 4 + gf.below(5));
            }
            ops.push(o);
        }
        return ops;
    }
};

const char* const ELEMS[] = { "int", "string", "counting" };


// ------------------------------------------------------------------------------------------------ naming helpers
// operation family (signature of fault findings) and the API method an operation calls directly (assert attribution)
std::string prefixOf(const std::string& op) {
    if (op.compare(0, 5, "push_") == 0 || op.compare(0, 4, "pop_") == 0) return op.substr(0, op.find('_', op.find('_') + 1));
    return op.substr(0, op.find('_'));
}
std::string familyOf(const std::string& op) {
    if (op == "copy_ctor" || op == "self_assign" || op == "assign_from_b" || op == "assign_to_b") return "copy";
    const std::string p = prefixOf(op);
    if (p == "index") return "insert";
    if (p == "ctor" || p == "sub" || p == "clone") return "construct";
    return p;
}
// "reference xalanc_1_12::XalanVector<int, ...>::operator[](size_type) [Type = int]" -> "XalanVector::operator[]"
std::string assertFn(const char* pretty) {
    std::string in = pretty ? pretty : "?"; size_t br = in.find(" ["); if (br != std::string::npos) in.erase(br);
    std::string s; int depth = 0;
    for (size_t i = 0; i < in.size(); ++i) {
        const char c = in[i]; const bool afterOp = s.size() >= 8 && s.compare(s.size() - 8, 8, "operator") == 0;
        if (afterOp && depth == 0 && (c == '<' || c == '>' || c == '(' || c == '[' || c == '-' || c == '=' || c == '+' || c == '!' || c == '*')) {
            // operator symbol: copy it verbatim
            while (i < in.size() && in[i] != '(' ) { s += in[i]; ++i; }
            if (s.size() >= 8 && s.compare(s.size() - 8, 8, "operator") == 0 && i + 1 < in.size() && in[i] == '(' && in[i + 1] == ')') { s += "()"; }
            break;
        }
        if (c == '<') { ++depth; continue; }
        if (c == '>') { if (depth > 0) --depth; continue; }
        if (depth > 0) continue;
        if (c == '(') break;
        s += c;
    }
    for (const char* ns : { "xalanc_1_12::", "xalanc::", "xercesc_3_2::" }) { size_t q; while ((q = s.find(ns)) != std::string::npos) s.erase(q, strlen(ns)); }
    while (!s.empty() && s.back() == ' ') s.pop_back();
    size_t sp = s.rfind(' '); if (sp != std::string::npos) s = s.substr(sp + 1);
    while (!s.empty() && (s[0] == '&' || s[0] == '*')) s.erase(0, 1);
    return s;
}
const char* classOf(const std::string& cont) {
    static const struct { const char* c; const char* k; } T[] = { { "vector", "XalanVector" }, { "list", "XalanList" }, { "deque", "XalanDeque" }, { "map", "XalanMap" }, { "set", "XalanSet" },
        { "string", "XalanDOMString" }, { "stringpool", "XalanDOMStringPool" }, { "hashtable", "XalanDOMStringHashTable" }, { "bitmap", "XalanBitmap" }, { "cache", "XalanObjectCache" } };
    for (auto& t : T) if (cont == t.c) return t.k;
    return "?";
}
bool listed(const char* list, const std::string& m) {
    const std::string l = std::string(",") + list + ","; return l.find("," + m + ",") != std::string::npos;
}
// expressions that state an invariant or a postcondition of the library itself, never an argument precondition
bool invariantExpr(const std::string& e) {
    static const char* const INV[] = { "m_size == theRhs.m_size", "m_buckets.empty() == false", "index < m_buckets.size()", "0 == m_size", "m_entries.empty()", "m_allocation >= theSize",
        "m_size == theSize", "theNewSize > m_size", "theNewSize != 0", "m_stringCount == m_hashTable.size()", "length() == theCount", "length() == theLength", "length() == 1", "*thePosition == theChar",
        "pointer != 0", "m_memoryManager != 0", "&node != m_listHead", "m_blockIndex.back() != 0", "m_data.size() - 1 == m_size", "m_size == m_data.size() - 1", "m_allocation >= m_size", "m_data.back() == 0", 0 };
    for (const char* const* p = INV; *p; ++p) if (e.find(*p) != std::string::npos) return true;
    return false;
}
bool calledDirectly(const Run& R, const std::string& method) {
    static const char* ACC = "size,length,empty,capacity,c_str,data,operator[],at,front,back,begin,end,rbegin,rend,find,count,getSize,isSet,bucketCount,getBucketCounts,getHashTable,hash";
    const std::string& d = R.directOp; const std::string cls = R.apiClass;
    if (R.phase != "op") return method == "~" + cls;
    if (listed(ACC, method) || method == d) return true;
    if ((d == "assign" || d == "self" || d == "copy") && (method == "operator=" || method == "assign" || method == cls || method == "clone" || method == "swap")) return true;
    if ((d == "append" || d == "push_back") && (method == "append" || method == "operator+=" || method == "push_back")) return true;
    if ((d == "set" || d == "index") && method == "operator[]") return true;
    if ((d == "ctor" || d == "sub" || d == "clone") && (method == cls || method == "clone" || method == "swap")) return true;
    if (d == "equals" && (method == "operator==" || method == "operator!=" || method == "equals")) return true;
    if (d == "erase" && method == "find") return true;
    return false;
}

// ------------------------------------------------------------------------------------------------ execution
struct ProgressOut { char cont[24]; char kind[64]; char phase[16]; int opIdx; };
ProgressOut* g_progress = 0;
inline void note(const Run& R) { if (!g_progress) return; copyz(g_progress->cont, sizeof g_progress->cont, R.cont.c_str()); copyz(g_progress->kind, sizeof g_progress->kind, R.kind.c_str()); copyz(g_progress->phase, sizeof g_progress->phase, R.phase.c_str()); g_progress->opIdx = (int)R.opIdx; }

template <class Runner> void runHistory(Run& R) {
    Runner* r = new Runner(R);                       // abandoned (never destroyed) when the history is aborted
    const Json& ops = R.plan.at("ops");
    for (size_t i = 0; i < ops.a.size() && !R.stop; ++i) {
        if (ops.a[i].t != Json::Obj) continue;
        R.opIdx = i; R.op = &ops.a[i]; R.phase = "op"; R.extraLive = 0; R.opChanged = false; R.kind = ops.a[i].str("op"); R.stateClass = ""; R.family = familyOf(R.kind); R.directOp = prefixOf(R.kind);
        note(R);
        r->step();
    }
    R.op = 0; R.opIdx = ops.a.size(); R.kind = "destroy"; R.family = "destroy"; R.directOp = "destroy"; R.stateClass = ""; R.phase = "destroy"; R.fired = false;
    note(R);
    r->finish(); delete r;
    R.phase = "final";
}

template <template <class> class Runner> void byElem(Run& R) {
    if (R.elem == "string") runHistory<Runner<StrE> >(R); else if (R.elem == "counting") runHistory<Runner<CntE> >(R); else runHistory<Runner<IntE> >(R);
}
template <class KE> void mapByValue(Run& R, const std::string& ve) {
    if (ve == "string") runHistory<MapRun<KE, StrE> >(R); else if (ve == "counting") runHistory<MapRun<KE, CntE> >(R); else runHistory<MapRun<KE, IntE> >(R);
}

struct C20 : public Driver {
    const char* property() const override { return "C20"; }
    void init() override {
        xalanInitOnce(); installHandlers(); signal(SIGPIPE, SIG_IGN);
        progress = (Progress*)mmap(nullptr, 4096, PROT_READ | PROT_WRITE, MAP_SHARED | MAP_ANONYMOUS, -1, 0);
        g_progress = progress;
    }

    Json makePlan(uint64_t verifSeed, uint64_t run, const std::string& tier) override {
        const uint64_t seed = runSeed(verifSeed, "C20", run);
        Rng root(seed); Rng gc = root.fork("config");
        Json p = Json::object();
        p["property"] = "C20"; p["run"] = (long long)run; p["seed"] = hex64(seed); p["tier"] = tier;
        static const struct { const char* name; unsigned w; const OpSpec* ops; } CONT[] = {
            { "map", 22, MAP_OPS }, { "vector", 18, VECTOR_OPS }, { "string", 22, STRING_OPS }, { "list", 9, LIST_OPS }, { "deque", 9, DEQUE_OPS },
            { "set", 8, SET_OPS }, { "stringpool", 4, POOL_OPS }, { "hashtable", 3, HASHTABLE_OPS }, { "bitmap", 2, BITMAP_OPS }, { "cache", 3, CACHE_OPS } };
        unsigned x = (unsigned)gc.below(100), ci = 0; while (x >= CONT[ci].w) { x -= CONT[ci].w; ++ci; }
        const std::string cont = CONT[ci].name;
        p["container"] = cont;
        const std::string elem = ELEMS[gc.below(3)], velem = ELEMS[gc.below(3)];
        const bool modeB = gc.chance(1, 2) && cont != "bitmap";
        if (cont == "string" || cont == "stringpool" || cont == "hashtable" || cont == "cache") p["elem"] = "string";
        else if (cont == "bitmap") p["elem"] = "bit";
        else p["elem"] = elem;
        if (cont == "map") { p["velem"] = velem; if (run % 5 == 2) p["elem"] = "cstring"; }      // keys as C strings with the library's own traits for them
        p["mode"] = modeB ? "B" : "A";
        Json kn = Json::object();
        static const int SMALL[] = { 1, 1, 2, 2, 3, 3, 5, 7 };
        if (cont == "map") {
            kn["lfA"] = (int)gc.below(5); kn["lfB"] = (int)gc.below(5);
            kn["minA"] = gc.chance(1, 8) ? 29 : SMALL[gc.below(8)]; kn["minB"] = gc.chance(1, 8) ? 29 : SMALL[gc.below(8)];
            kn["etA"] = gc.chance(1, 8) ? 50 : SMALL[gc.below(8)]; kn["etB"] = gc.chance(1, 8) ? 50 : (gc.chance(1, 8) ? 0 : SMALL[gc.below(8)]);
            kn["hash"] = (int)(gc.chance(1, 2) ? 0 : gc.chance(3, 4) ? 1 : 2);
        } else if (cont == "set") { kn["hash"] = (int)(gc.chance(1, 2) ? 0 : gc.chance(3, 4) ? 1 : 2); kn["wide"] = (int)gc.below(2); }
        else if (cont == "vector" || cont == "string") kn["cap"] = (int)(gc.chance(1, 2) ? 0 : gc.below(9));
        else if (cont == "deque") { const int bs = SMALL[gc.below(7)]; kn["bsA"] = bs; kn["bsB"] = gc.chance(2, 3) ? bs : SMALL[gc.below(7)]; kn["init"] = (int)(gc.chance(1, 2) ? 0 : gc.below(6)); }
        else if (cont == "stringpool") { kn["block"] = gc.chance(1, 6) ? 32 : SMALL[gc.below(6)]; kn["buckets"] = gc.chance(1, 6) ? 101 : SMALL[gc.below(8)]; kn["bsize"] = gc.chance(1, 4) ? 15 : (int)gc.below(4); }
        else if (cont == "hashtable") { kn["buckets"] = gc.chance(1, 6) ? 101 : SMALL[gc.below(8)]; kn["bsize"] = gc.chance(1, 4) ? 15 : (int)gc.below(4); }
        else if (cont == "bitmap") { static const int BITS[] = { 0, 1, 7, 8, 9, 15, 16, 17, 31, 33, 64, 70 }; kn["bits"] = BITS[gc.below(12)]; }
        else if (cont == "cache") kn["init"] = (int)gc.below(4);
        // the second container lives on a memory manager of its own (swap exchanges the managers as well; a block must go back where it came from)
        if (cont == "vector" || cont == "deque" || cont == "map" || cont == "set" || cont == "string") kn["mm2"] = (int)(run % 3 == 0);
        p["knobs"] = kn;
        Gen gen(root, modeB); gen.wideInts = cont == "set" && kn.num("wide") != 0 && elem == "int";
        p["ops"] = gen.history(CONT[ci].ops);
        return p;
    }

    void dispatch(Run& R) {
        const std::string& c = R.cont;
        if (c == "vector") byElem<VecRun>(R);
        else if (c == "list") byElem<ListRun>(R);
        else if (c == "deque") byElem<DequeRun>(R);
        else if (c == "set") byElem<SetRun>(R);
        else if (c == "map") {
            const std::string ve = R.plan.str("velem", "int");
            if (R.elem == "string") mapByValue<StrE>(R, ve); else if (R.elem == "counting") mapByValue<CntE>(R, ve); else if (R.elem == "cstring") mapByValue<CStrE>(R, ve); else mapByValue<IntE>(R, ve);
        }
        else if (c == "string") runHistory<StringRun>(R);
        else if (c == "stringpool") runHistory<PoolRun>(R);
        else if (c == "hashtable") runHistory<HashTableRun>(R);
        else if (c == "bitmap") runHistory<BitmapRun>(R);
        else if (c == "cache") runHistory<CacheRun>(R);
        else R.res.harness("unknown container " + c);
    }

    void aborted(Run& R, int code) {
        AbortCtx& A = abortCtx();
        const std::string at = R.phase == "op" ? R.where() : R.phase;
        if (R.mm.refused > R.refusedAtCall) R.fired = true;          // the refusal happened inside the call that was interrupted
        if (code == ABORT_ASSERT) {
            std::string file = A.file; size_t p = file.find("/src/xalanc/"); if (p != std::string::npos) file = file.substr(p + 5);
            const std::string fn = assertFn(A.func);
            const std::string text = std::string("assertion `") + A.expr + "' failed at " + file + ":" + std::to_string(A.line) + " in " + fn + " during " + at;
            R.tr.ev("assert " + fn + " " + A.expr);
            const std::string cls = std::string(R.apiClass) + "::";
            if (fn.compare(0, cls.size(), cls) == 0 && calledDirectly(R, fn.substr(cls.size())) && !invariantExpr(A.expr))
                R.res.harness("the interpreter called " + fn + " outside its documented precondition: " + text);     // generator bug, never a verdict
            else
                R.ordinary("library-assert", R.cont + ":" + R.kind + ":" + fn, text + " (not a precondition of the call the harness made: the library broke its own contract)");
        } else if (code == ABORT_SIGNAL) {
            R.tr.ev("signal " + std::to_string(A.sig));
            R.ordinary("abnormal-termination", "signal" + std::to_string(A.sig) + ":" + R.cont + (R.fired ? ":after-refused-allocation" : ""),
                          "signal " + std::to_string(A.sig) + " inside the library during " + at + (R.modeB ? " (mode B: an allocation had been refused earlier in this history: " + std::to_string(R.mm.refused) + ")" : ""));
        } else {
            R.tr.ev("watchdog");
            // a history is a few dozen container operations taking microseconds: 20 s inside one of them is an endless traversal of a
            // corrupted structure (seen: a list node linked to itself), which is the library's doing, not the harness's
            R.ordinary("hang", R.cont + ":" + R.kind, "the history did not finish within 20 s, during " + at);
        }
    }


    static std::string slurp(int fd) { std::string s; lseek(fd, 0, SEEK_SET); char b[8192]; ssize_t n; while ((n = read(fd, b, sizeof b)) > 0) s.append(b, n); close(fd); return s; }
    // ---- AddressSanitizer reports arrive unsymbolised (ASAN_OPTIONS=symbolize=0, see lib/props_c20.py: a symbolizer
    // process per crashed history costs more than the history); the frames are resolved here through one
    // llvm-symbolizer kept for the life of the worker.  Reports that are already symbolised are understood as well.
    struct Symbolizer {
        pid_t pid = -1; int toFd = -1; FILE* from = 0; bool failed = false;
        bool start() {
            if (pid > 0) return true; if (failed) return false;
            const char* path = getenv("ASAN_SYMBOLIZER_PATH"); if (!path || !*path) path = "/usr/bin/llvm-symbolizer";
            int a[2], b[2]; if (pipe(a) || pipe(b)) { failed = true; return false; }
            fflush(stdout); fflush(stderr);
            const pid_t c = fork(); if (c < 0) { failed = true; return false; }
            if (c == 0) { dup2(a[0], 0); dup2(b[1], 1); close(a[1]); close(b[0]); execl(path, path, "--demangle", "--inlines", (char*)0); _exit(127); }
            close(a[0]); close(b[1]); toFd = a[1]; from = fdopen(b[0], "r"); pid = c; return from != 0;
        }
        // (function, file) pairs of one address, innermost inlined frame first
        std::vector<std::pair<std::string, std::string> > query(const std::string& module, const std::string& off) {
            std::vector<std::pair<std::string, std::string> > r; if (!start()) return r;
            const std::string q = "\"" + module + "\" " + off + "\n";
            if (write(toFd, q.data(), q.size()) != (ssize_t)q.size()) { failed = true; pid = -1; return r; }
            char buf[4096]; std::string fn; bool haveFn = false;
            while (fgets(buf, sizeof buf, from)) {
                std::string l = buf; while (!l.empty() && (l.back() == '\n' || l.back() == '\r')) l.pop_back();
                if (l.empty()) break;
                if (!haveFn) { fn = l; haveFn = true; } else { r.emplace_back(fn, l); haveFn = false; }
            }
            return r;
        }
    } symbolizer;

    std::vector<std::pair<std::string, std::string> > firstStack(const std::string& err, size_t from) {
        std::vector<std::pair<std::string, std::string> > frames; bool started = false; size_t q = from;
        while (q < err.size() && frames.size() < 40) {
            size_t e = err.find('\n', q); if (e == std::string::npos) e = err.size();
            const std::string ln = err.substr(q, e - q); q = e + 1;
            const size_t h = ln.find_first_not_of(' ');
            if (h != std::string::npos && ln[h] == '#' ) {
                started = true;
                const size_t in = ln.find(" in ");
                if (in != std::string::npos) {
                    const size_t sp = ln.rfind(' '); if (sp == std::string::npos || sp <= in + 4) continue;
                    frames.emplace_back(ln.substr(in + 4, sp - (in + 4)), ln.substr(sp + 1));
                } else {
                    const size_t lp = ln.find('('), plus = ln.find("+0x", lp == std::string::npos ? 0 : lp), rp = ln.find(')', plus == std::string::npos ? 0 : plus);
                    if (lp == std::string::npos || plus == std::string::npos || rp == std::string::npos) continue;
                    for (auto& f : symbolizer.query(ln.substr(lp + 1, plus - lp - 1), ln.substr(plus + 1, rp - plus - 1))) frames.push_back(f);
                }
            } else if (started && ln.find_first_not_of(" \t") == std::string::npos) break;
        }
        return frames;
    }
    std::string asanSig(const std::string& err, std::string* kindOut, const std::string& cont, const std::string& op, std::string* stackOut) {
        std::string kind = "unknown"; const size_t p = err.find("ERROR: AddressSanitizer: ");
        if (p != std::string::npos) { size_t e = err.find_first_of(" \n", p + 25); kind = err.substr(p + 25, e - (p + 25)); }
        if (kindOut) *kindOut = kind;
        const std::string c1 = std::string(classOf(cont)) + "::", c2 = cont == "set" ? "XalanMap::" : c1;
        std::vector<std::string> own; int shown = 0;
        for (auto& f : firstStack(err, p == std::string::npos ? 0 : p)) {
            if (stackOut && shown < 12) { *stackOut += "\n    " + f.first.substr(0, 160) + "  " + f.second; ++shown; }
            if (f.second.find("/src/xalanc/") == std::string::npos) continue;
            const std::string n = assertFn(f.first.c_str());
            if (own.size() < 2 && (n.compare(0, c1.size(), c1) == 0 || n.compare(0, c2.size(), c2) == 0) && (own.empty() || own.back() != n)) own.push_back(n);
        }
        // frames of the class under test identify the defect independently of the element type; without any, the report
        // comes from the harness reading an element the container handed out
        if (own.empty()) return kind + ":reading-" + cont + "-element:" + familyOf(op);
        std::string sig = kind + ":"; for (size_t i = 0; i < own.size(); ++i) sig += (i ? "<" : "") + own[i];
        return sig;
    }
    typedef ProgressOut Progress;
    Progress* progress = 0;

    // ---- the interpreter lives in a child process that is kept across histories and replaced when it dies
    struct Child { pid_t pid = -1; int toFd = -1, fromFd = -1, errFd = -1; } ch;
    static bool writeAll(int fd, const void* p, size_t n) { const char* c = (const char*)p; while (n) { ssize_t w = write(fd, c, n); if (w <= 0) { if (w < 0 && errno == EINTR) continue; return false; } c += w; n -= (size_t)w; } return true; }
    static bool readAll(int fd, void* p, size_t n) { char* c = (char*)p; while (n) { ssize_t r = read(fd, c, n); if (r <= 0) { if (r < 0 && errno == EINTR) continue; return false; } c += r; n -= (size_t)r; } return true; }
    bool abortedBySignal = false;

    void childLoop(int in, int out) {
        std::set_terminate([] { _exit(78); });
        for (;;) {
            uint32_t hdr[2]; if (!readAll(in, hdr, sizeof hdr)) _exit(0);
            std::string buf(hdr[0], '\0'); if (!readAll(in, &buf[0], buf.size())) _exit(0);
            if (ftruncate(2, 0) == 0) lseek(2, 0, SEEK_SET);
            Result r2; Trace t2; t2.keep = hdr[1] != 0; abortedBySignal = false;
            ubsanReset();
            try { Json plan = Json::parse(buf); executeHere(plan, r2, t2); }
            catch (const std::exception& e) { r2.harness(std::string("exception escaped the interpreter: ") + e.what()); }
            catch (...) { r2.harness("unknown exception escaped the interpreter"); }
            for (auto& u : ubsanTake()) r2.violate("sanitizer:ubsan", u, "UndefinedBehaviorSanitizer report: " + u + " (" + progress->cont + ")");
            Json j = Json::object();
            j["status"] = r2.status; j["hdetail"] = r2.harnessDetail; j["hash"] = t2.hex(); j["events"] = (long long)t2.events; j["bye"] = abortedBySignal;
            Json vl = Json::array(); for (auto& v : r2.viols) { Json o = Json::object(); o["c"] = v.cls; o["s"] = v.sig; o["d"] = v.detail; o["n"] = v.count; vl.push(o); }
            j["viols"] = vl; j["counters"] = r2.counters; j["tags"] = r2.tags;
            if (t2.keep) { Json l = Json::array(); for (auto& e : t2.log) l.push(e); j["log"] = l; }
            const std::string o = j.dump(); const uint32_t len = (uint32_t)o.size();
            if (!writeAll(out, &len, sizeof len) || !writeAll(out, o.data(), o.size())) _exit(0);
            if (abortedBySignal) _exit(0);           // a signal was caught inside the library: do not trust this process any further
        }
    }
    bool spawn() {
        int a[2], b[2]; if (pipe(a) || pipe(b)) return false;
        ch.errFd = memfd_create("c20err", 0);
        fflush(stdout); fflush(stderr);
        const pid_t pid = fork();
        if (pid < 0) return false;
        if (pid == 0) { close(a[1]); close(b[0]); dup2(ch.errFd, 2); childLoop(a[0], b[1]); _exit(0); }
        close(a[0]); close(b[1]); ch.toFd = a[1]; ch.fromFd = b[0]; ch.pid = pid;
        return true;
    }
    int reap(std::string& err) {
        int st = 0; while (waitpid(ch.pid, &st, 0) < 0 && errno == EINTR) {}
        err = slurp(ch.errFd); close(ch.toFd); close(ch.fromFd); ch = Child();
        return st;
    }

    void execute(const Json& plan, Result& res, Trace& tr) override {
        if (getenv("C20_NOFORK")) { executeHere(plan, res, tr); return; }
        if (ch.pid < 0 && !spawn()) { res.harness("cannot start the interpreter process"); return; }
        memset(progress, 0, sizeof *progress);
        const std::string body = plan.dump(); const uint32_t hdr[2] = { (uint32_t)body.size(), tr.keep ? 1u : 0u };
        std::string raw; uint32_t len = 0; bool got = writeAll(ch.toFd, hdr, sizeof hdr) && writeAll(ch.toFd, body.data(), body.size()) && readAll(ch.fromFd, &len, sizeof len);
        if (got) { raw.resize(len); got = readAll(ch.fromFd, &raw[0], len); }
        if (got) {
            Json j; try { j = Json::parse(raw); } catch (...) { res.harness("unparsable result from the interpreter process"); return; }
            res.status = j.str("status", "ok"); res.harnessDetail = j.str("hdetail");
            for (auto& v : j.at("viols").a) { Viol x; x.cls = v.str("c"); x.sig = v.str("s"); x.detail = v.str("d"); x.count = (int)v.num("n", 1); res.viols.push_back(x); }
            res.counters = j.at("counters"); if (res.counters.t != Json::Obj) res.counters = Json::object();
            res.tags = j.at("tags"); if (res.tags.t != Json::Arr) res.tags = Json::array();
            tr.h = strtoull(j.str("hash", "0").c_str(), nullptr, 16); tr.events = (size_t)j.num("events");
            if (tr.keep) for (auto& e : j.at("log").a) tr.log.push_back(e.s);
            if (j.boolean("bye")) { std::string e; reap(e); }
            return;
        }
        // the interpreter process died inside this history: one violation record, deterministic trace
        std::string err; const int st = reap(err);
        const std::string at = std::string(progress->cont) + " op#" + std::to_string(progress->opIdx) + " " + progress->kind + " (" + progress->phase + ")";
        res.count("histories:" + std::string(progress->cont)); res.count("crashed-histories");
        std::string cls, sig, detail;
        if (WIFEXITED(st) && (WEXITSTATUS(st) == 77 || err.find("ERROR: AddressSanitizer") != std::string::npos)) {
            std::string kind, stack; cls = "sanitizer:asan"; sig = asanSig(err, &kind, progress->cont, progress->kind, &stack);
            detail = "AddressSanitizer " + kind + " during " + at + "; innermost frames:" + stack + "\n" + err.substr(0, 1200);
        } else if (WIFEXITED(st) && WEXITSTATUS(st) == 78) { cls = "abnormal-termination"; sig = std::string("terminate:") + progress->cont + ":" + familyOf(progress->kind); detail = "std::terminate during " + at; }
        else if (WIFEXITED(st) && WEXITSTATUS(st) == 70) { res.harness("assertion outside a history in the interpreter process: " + err.substr(0, 400)); tr.ev("child-harness"); return; }
        else if (WIFSIGNALED(st)) { cls = "abnormal-termination"; sig = "signal" + std::to_string(WTERMSIG(st)) + ":" + progress->cont; detail = "interpreter process killed by signal " + std::to_string(WTERMSIG(st)) + " during " + at; }
        else { cls = "abnormal-termination"; sig = "exit" + std::to_string(WIFEXITED(st) ? WEXITSTATUS(st) : -1) + ":" + progress->cont; detail = "interpreter process exited without a result during " + at + "; stderr: " + err.substr(0, 600); }
        res.violate(cls, sig, detail);
        tr.ev("child-died " + cls + " " + sig);
    }

    // One history; when it contains findings that need not involve a fault but occurred after one had fired, the same
    // history is executed once more with every fault removed: what shows up there as well is an ordinary defect, the rest
    // is a late consequence of the refused allocation.
    void executeHere(const Json& plan, Result& res, Trace& tr) {
        std::vector<std::pair<std::string, std::string> > suspects; std::vector<size_t> noEffect; std::vector<std::pair<size_t, Json> > forced;
        runPass(plan, res, tr, &suspects, &noEffect, &forced);
        if (suspects.empty()) return;
        // the fault-free twin: operations whose refused allocation left everything unchanged are dropped, the others run without faults
        Json clean = plan; clean["mode"] = "A";
        { Json ops = Json::array(); const Json& all = plan.at("ops"); for (size_t i = 0; i < all.a.size(); ++i) {
              if (std::find(noEffect.begin(), noEffect.end(), i) != noEffect.end()) continue;
              const Json* f = 0; for (auto& fo : forced) if (fo.first == i) f = &fo.second;
              ops.push(f ? *f : all.a[i]); }
          clean["ops"] = ops; }
        Result r2; r2.run = res.run; Trace t2; runPass(clean, r2, t2, 0, 0, 0);
        res.count("attribution-passes");
        const std::string cont = plan.str("container");
        for (auto& key : suspects) {
            bool alsoFaultFree = false; for (auto& v : r2.viols) if (v.cls == key.first && v.sig == key.second) alsoFaultFree = true;
            if (alsoFaultFree) continue;
            for (size_t i = 0; i < res.viols.size(); ++i) {
                Viol& v = res.viols[i]; if (v.cls != key.first || v.sig != key.second) continue;
                Viol moved = v; moved.cls = "fault-corrupts-container"; moved.sig = cont + ":latent";
                moved.detail = "late consequence of an earlier refused allocation (the same history without faults does not show it); symptom [" + v.cls + " " + v.sig + "]: " + v.detail;
                res.viols.erase(res.viols.begin() + i);
                bool merged = false; for (auto& w : res.viols) if (w.cls == moved.cls && w.sig == moved.sig) { w.count += moved.count; merged = true; }
                if (!merged) res.viols.push_back(moved);
                break;
            }
            tr.ev("latent " + key.first + " " + key.second);
        }
        if (res.viols.empty() && res.status == "violation") res.status = "ok";
    }

    void runPass(const Json& plan, Result& res, Trace& tr, std::vector<std::pair<std::string, std::string> >* suspects, std::vector<size_t>* noEffect, std::vector<std::pair<size_t, Json> >* forced) {
        Counted::resetStats(); hashMode() = 0;
        AbortCtx& A = abortCtx();
        Run* R = new Run(res, tr, plan);
        tr.ev("C20 " + R->cont + " " + R->elem + "/" + plan.str("velem", "-") + " mode " + plan.str("mode", "A") + " knobs " + plan.at("knobs").dump());
        res.count("histories:" + R->cont); res.count(std::string("mode:") + (R->modeB ? "B" : "A"));
        const int code = sigsetjmp(A.jb, 1);
        bool completed = false;
        if (code == 0) { A.armed = 1; alarm(20); dispatch(*R); alarm(0); A.armed = 0; completed = true; }
        else { alarm(0); A.armed = 0; aborted(*R, code); res.count("aborted-histories"); if (code == ABORT_SIGNAL) abortedBySignal = true; }
        SimMemoryManager& mm = R->mm;
        if (code == 0 && completed && R->phase == "final" && !R->poisoned) {
            R->kind = "destroy"; R->fired = mm.refused > 0;
            if (Counted::bad) R->lifetime("element-destroyed-twice-or-garbage", std::to_string(Counted::bad) + " destructions/reads of objects that were not live");
            if (Counted::live - R->liveBias != 0) R->lifetime("element-balance", std::to_string(Counted::live - R->liveBias) + " counting elements still alive after the containers were destroyed (constructions " + std::to_string(Counted::ctors) + ", destructions " + std::to_string(Counted::dtors) + ")");
            if (mm.liveBlocks != 0) {
                if (mm.refused == 0) res.violate("leak", R->cont, std::to_string(mm.liveBlocks) + " blocks (" + std::to_string(mm.liveBytes) + " bytes) still allocated after the containers were destroyed in a fault-free history");
                else res.count("blocks-outstanding-after-faulted-history", (int64_t)mm.liveBlocks);
            }
        }
        { SimMemoryManager& m2 = R->mm2;
          if (m2.foreignFrees) res.violate("bad-free", R->cont + ":foreign-free:second-manager", std::to_string(m2.foreignFrees) + " deallocations, through the second container's manager, of pointers it never handed out");
          if (m2.doubleFrees) res.violate("bad-free", R->cont + ":double-free:second-manager", m2.firstBadFree);
          if (code == 0 && completed && R->phase == "final" && !R->poisoned && m2.liveBlocks != 0 && mm.refused == 0) res.violate("leak", R->cont + ":second-manager", std::to_string(m2.liveBlocks) + " blocks of the second container's manager still allocated after the containers were destroyed"); }
        if (mm.foreignFrees) res.violate("bad-free", R->cont + ":foreign-free", std::to_string(mm.foreignFrees) + " deallocations of pointers this manager never handed out");
        if (mm.doubleFrees) res.violate("bad-free", R->cont + ":double-free", mm.firstBadFree);
        tr.ev("end allocs=" + std::to_string(mm.serial) + " refused=" + std::to_string(mm.refused) + " live=" + std::to_string(mm.liveBlocks));
        res.count("allocations", (int64_t)mm.serial);
        if (suspects) *suspects = R->suspects;
        if (noEffect) *noEffect = R->noEffect;
        if (forced) *forced = R->forced;
        delete R;
    }
};

} // namespace

int main(int argc, char** argv) { C20 d; return driverMain(argc, argv, d); }
