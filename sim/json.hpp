// Minimal JSON value with ordered objects (deterministic dumps), parser and writer.
#pragma once
#include <string>
#include <vector>
#include <utility>
#include <cstdint>
#include <cstdio>
#include <cstdlib>
#include <cstring>
#include <stdexcept>

namespace sim {

struct Json {
    enum Type { Null, Bool, Int, Dbl, Str, Arr, Obj } t = Null;
    bool b = false;
    int64_t i = 0;
    double d = 0;
    std::string s;
    std::vector<Json> a;
    std::vector<std::pair<std::string, Json>> o;

    Json() {}
    Json(bool v) : t(Bool), b(v) {}
    Json(int v) : t(Int), i(v) {}
    Json(unsigned v) : t(Int), i(v) {}
    Json(long v) : t(Int), i(v) {}
    Json(long long v) : t(Int), i(v) {}
    Json(unsigned long v) : t(Int), i((int64_t)v) {}
    Json(unsigned long long v) : t(Int), i((int64_t)v) {}
    Json(double v) : t(Dbl), d(v) {}
    Json(const char* v) : t(Str), s(v) {}
    Json(const std::string& v) : t(Str), s(v) {}
    static Json array() { Json j; j.t = Arr; return j; }
    static Json object() { Json j; j.t = Obj; return j; }

    bool isNull() const { return t == Null; }
    Json& push(const Json& v) { if (t != Arr) { t = Arr; } a.push_back(v); return a.back(); }
    Json& operator[](const std::string& k) {
        if (t != Obj) t = Obj;
        for (auto& kv : o) if (kv.first == k) return kv.second;
        o.emplace_back(k, Json());
        return o.back().second;
    }
    const Json* find(const std::string& k) const {
        for (auto& kv : o) if (kv.first == k) return &kv.second;
        return nullptr;
    }
    bool has(const std::string& k) const { return find(k) != nullptr; }
    const Json& at(const std::string& k) const {
        static const Json nul;
        const Json* p = find(k); return p ? *p : nul;
    }
    int64_t num(const std::string& k, int64_t def = 0) const {
        const Json* p = find(k); if (!p) return def;
        if (p->t == Int) return p->i; if (p->t == Dbl) return (int64_t)p->d; if (p->t == Bool) return p->b; return def;
    }
    std::string str(const std::string& k, const std::string& def = "") const {
        const Json* p = find(k); if (!p || p->t != Str) return def; return p->s;
    }
    bool boolean(const std::string& k, bool def = false) const {
        const Json* p = find(k); if (!p) return def; if (p->t == Bool) return p->b; if (p->t == Int) return p->i != 0; return def;
    }
    size_t size() const { return t == Arr ? a.size() : t == Obj ? o.size() : 0; }

    static void esc(std::string& out, const std::string& s) {
        out += '"';
        for (unsigned char c : s) {
            switch (c) {
            case '"': out += "\\\""; break;
            case '\\': out += "\\\\"; break;
            case '\n': out += "\\n"; break;
            case '\r': out += "\\r"; break;
            case '\t': out += "\\t"; break;
            default:
                if (c < 0x20 || c >= 0x7f) { char b[8]; snprintf(b, sizeof b, "\\u%04x", c); out += b; }   // bytes as latin-1 code points: lossless for arbitrary byte strings
                else out += (char)c;
            }
        }
        out += '"';
    }
    void dump(std::string& out) const {
        switch (t) {
        case Null: out += "null"; break;
        case Bool: out += b ? "true" : "false"; break;
        case Int: out += std::to_string(i); break;
        case Dbl: { char buf[40]; snprintf(buf, sizeof buf, "%.17g", d); out += buf; break; }
        case Str: esc(out, s); break;
        case Arr: out += '['; for (size_t k = 0; k < a.size(); ++k) { if (k) out += ','; a[k].dump(out); } out += ']'; break;
        case Obj: out += '{'; for (size_t k = 0; k < o.size(); ++k) { if (k) out += ','; esc(out, o[k].first); out += ':'; o[k].second.dump(out); } out += '}'; break;
        }
    }
    std::string dump() const { std::string r; dump(r); return r; }

    // ---- parser (strings: \uXXXX < 0x100 become single bytes, others UTF-8) ----
    struct P { const char* p; const char* e; };
    static void ws(P& x) { while (x.p < x.e && (*x.p == ' ' || *x.p == '\n' || *x.p == '\r' || *x.p == '\t')) ++x.p; }
    static std::string pstr(P& x) {
        std::string r; if (*x.p != '"') throw std::runtime_error("json: expected string"); ++x.p;
        while (x.p < x.e && *x.p != '"') {
            if (*x.p == '\\') {
                ++x.p; char c = *x.p++;
                switch (c) {
                case 'n': r += '\n'; break; case 'r': r += '\r'; break; case 't': r += '\t'; break;
                case 'b': r += '\b'; break; case 'f': r += '\f'; break;
                case 'u': { unsigned v = 0; for (int k = 0; k < 4; ++k) { char h = *x.p++; v = v * 16 + (h <= '9' ? h - '0' : (h | 32) - 'a' + 10); }
                    if (v < 0x100) r += (char)v; else if (v < 0x800) { r += (char)(0xC0 | (v >> 6)); r += (char)(0x80 | (v & 63)); } else { r += (char)(0xE0 | (v >> 12)); r += (char)(0x80 | ((v >> 6) & 63)); r += (char)(0x80 | (v & 63)); } break; }
                default: r += c;
                }
            } else r += *x.p++;
        }
        ++x.p; return r;
    }
    static Json pval(P& x) {
        ws(x); if (x.p >= x.e) throw std::runtime_error("json: eof");
        char c = *x.p;
        if (c == '{') { Json j = object(); ++x.p; ws(x); if (*x.p == '}') { ++x.p; return j; }
            for (;;) { ws(x); std::string k = pstr(x); ws(x); if (*x.p != ':') throw std::runtime_error("json: ':'"); ++x.p; j.o.emplace_back(k, pval(x)); ws(x); if (*x.p == ',') { ++x.p; continue; } if (*x.p == '}') { ++x.p; break; } throw std::runtime_error("json: obj"); }
            return j; }
        if (c == '[') { Json j = array(); ++x.p; ws(x); if (*x.p == ']') { ++x.p; return j; }
            for (;;) { j.a.push_back(pval(x)); ws(x); if (*x.p == ',') { ++x.p; continue; } if (*x.p == ']') { ++x.p; break; } throw std::runtime_error("json: arr"); }
            return j; }
        if (c == '"') return Json(pstr(x));
        if (!strncmp(x.p, "true", 4)) { x.p += 4; return Json(true); }
        if (!strncmp(x.p, "false", 5)) { x.p += 5; return Json(false); }
        if (!strncmp(x.p, "null", 4)) { x.p += 4; return Json(); }
        char* end; bool isd = false; for (const char* q = x.p; q < x.e && (isdigit((unsigned char)*q) || *q == '-' || *q == '+' || *q == '.' || *q == 'e' || *q == 'E'); ++q) if (*q == '.' || *q == 'e' || *q == 'E') isd = true;
        if (isd) { double v = strtod(x.p, &end); x.p = end; return Json(v); }
        long long v = strtoll(x.p, &end, 10); if (end == x.p) throw std::runtime_error("json: value"); x.p = end; return Json(v);
    }
    static Json parse(const std::string& s) { P x{ s.data(), s.data() + s.size() }; return pval(x); }
};

inline std::string readFile(const std::string& path) {
    FILE* f = fopen(path.c_str(), "rb"); if (!f) throw std::runtime_error("cannot open " + path);
    std::string r; char buf[65536]; size_t n; while ((n = fread(buf, 1, sizeof buf, f)) > 0) r.append(buf, n); fclose(f); return r;
}

} // namespace sim
