// C06 — a reused transformer behaves like a fresh one: no state leaks between calls.
// One run = a history of <= 30 API operations on one long-lived XalanTransformer; every transformation in it is
// compared (status, delivered bytes, error message presence) with the same call on a freshly created transformer
// that was given the model's sticky settings (params, installed functions, options).
#include "xform.hpp"
#include <xalanc/XPath/Function.hpp>
#include <xalanc/XPath/XObjectFactory.hpp>
#include <xalanc/XSLT/TraceListener.hpp>
#include <xalanc/XSLT/TracerEvent.hpp>
#include <xalanc/XSLT/SelectionEvent.hpp>
#include <xalanc/XSLT/GenerateEvent.hpp>

using namespace sim;
using namespace xalanc;

namespace {

struct FnControl { uint64_t calls = 0; uint64_t failAt = 0; };
FnControl g_fn;     // shared by all clones of the external function (reset per transformation)

class FunctionSq : public Function {
public:
    XObjectPtr execute(XPathExecutionContext& ctx, XalanNode* context, const XObjectArgVectorType& args, const Locator* locator) const override {
        ++g_fn.calls;
        if (args.size() != 1 || (g_fn.failAt && g_fn.calls == g_fn.failAt)) { generalError(ctx, context, locator); }
        double v = args[0]->num(ctx);
        return ctx.getXObjectFactory().createNumber(v * v);
    }
    using Function::execute;
    FunctionSq* clone(MemoryManager& m) const override { return XalanCopyConstruct(m, *this); }
protected:
    const XalanDOMString& getError(XalanDOMString& r) const override { r.assign("ext:sq() failed (simulated)"); return r; }
};

struct CountingTrace : public TraceListener {
    uint64_t n = 0;
    void trace(const TracerEvent&) override { ++n; }
    void selected(const SelectionEvent&) override { ++n; }
    void generated(const GenerateEvent&) override { ++n; }
};

// sticky settings of a transformer (the reference model is plain data)
struct Model {
    std::vector<Param> params; bool fnInstalled = false; int indent = -1; std::string encoding; int meta = 0, escape = 0; bool validation = false; bool trace = false;
};

// kind "node": the document element of a parsed source as a node-set parameter; value = "<document index>/<0|1 Xerces DOM>".
// On the reference transformer the same bytes are parsed the same way (the handle lives as long as the transformer).
void applyModel(XEnv& e, const Model& m, CountingTrace& tl, const Json* plan = nullptr) {
    xercesc::MemoryManager& mm = e.manager();
    std::vector<Param> plain; for (auto& q : m.params) if (q.kind != "node") plain.push_back(q);
    applyParams(*e.T, plain, mm);
    for (auto& q : m.params) if (q.kind == "node" && plan) {
        int di = atoi(q.value.c_str()); bool xer = q.value.size() > 2 && q.value[q.value.size() - 1] == '1';
        SimIStream is(plan->at("docs").a[di].s, SrcFault()); XSLTInputSource in(&is, mm); in.setSystemId(xs(std::string(SIM_BASE) + "doc.xml", mm).c_str());
        const XalanParsedSource* ps = nullptr; if (e.T->parseSource(in, ps, xer) == 0 && ps && ps->getDocument()) e.T->setStylesheetParam(xs(q.name, mm), (XalanNode*)ps->getDocument()->getDocumentElement());
    }
    if (m.fnInstalled) e.T->installExternalFunction(xs("urn:x-ext", mm), xs("sq", mm), FunctionSq());
    if (m.indent >= 0) e.T->setIndent(m.indent);
    if (!m.encoding.empty()) e.T->setOutputEncoding(xs(m.encoding, mm));
    if (m.meta) e.T->setOmitMETATag(m.meta == 1 ? XalanTransformer::eOmitMETATagYes : XalanTransformer::eOmitMETATagNo);
    if (m.escape) e.T->setEscapeURLs(m.escape == 1 ? XalanTransformer::eEscapeURLsYes : XalanTransformer::eEscapeURLsNo);
    e.T->setUseValidation(m.validation);
    if (m.trace) e.T->addTraceListener(&tl);
}

struct C06 : public Driver {
    const char* property() const override { return "C06"; }
    void init() override { xalanInitOnce(); }

    Json makePlan(uint64_t verifSeed, uint64_t run, const std::string& tier) override {
        uint64_t seed = runSeed(verifSeed, "C06", run);
        Rng root(seed); Rng g = root.fork("gen"), gh = root.fork("history");
        Json p = Json::object(); p["property"] = "C06"; p["run"] = (long long)run; p["seed"] = hex64(seed); p["tier"] = tier;
        p["reuse"] = g.chance(1, 2);
        // three documents, three stylesheets (one clean and feature rich, two with an abort cause at a seeded node)
        Json docs = Json::array(), sheets = Json::array(), res = Json::object(), sab = Json::array(); std::vector<GenDoc> gd;
        bool twinWanted = g.chance(1, 3), flat = twinWanted && g.chance(1, 2);      // see below; flat: a table of records (only the document element has element children)
        for (int i = 0; i < 3; ++i) { DocCfg dc; dc.maxNodes = (int)g.range(6, 40); dc.dtd = g.chance(1, 3) && !(twinWanted && i == 0); if (flat && i == 0) { dc.maxDepth = 1; dc.maxFan = 12; } dc.ns = g.chance(2, 3); dc.manyNames = (i == 2 && g.chance(1, 3)); if (dc.manyNames) dc.maxNodes = 80; gd.push_back(genDoc(g, dc)); docs.push(gd.back().xml); }
        // Addresses recur across the sources one transformer sees (the manager hands blocks out again, last freed first).
        // One run in three makes that matter: white space between all tags (every element gets white-space-only children,
        // the nodes xsl:strip-space decides about), and the second document is the first with its element names rotated (the document element's too) -
        // same shape, same block sizes, so the node at a given address has another name in the next source.
        if (twinWanted) {
            p["reuse"] = true;
            auto spaced = [](const std::string& x, bool rotate) {
                static const char* ring[] = { "sec", "a", "item", "p", "b", "c", "d", "doc" };
                std::string o; size_t body = x.find("<doc"); if (body == std::string::npos) return x;
                o = x.substr(0, body);
                for (size_t i = body; i < x.size(); ) {
                    if (x[i] == '<' && i + 1 < x.size() && x[i + 1] != '!' && x[i + 1] != '?') {
                        size_t j = i + 1; if (x[j] == '/') ++j; size_t k = j; while (k < x.size() && (isalnum((unsigned char)x[k]) || x[k] == ':' || x[k] == '_' || x[k] == '-' || x[k] == '.')) ++k;
                        std::string nm = x.substr(j, k - j);
                        if (rotate) for (int r = 0; r < 8; ++r) if (nm == ring[r]) { nm = ring[(r + 1) % 8]; break; }
                        o += x.substr(i, j - i); o += nm; i = k; continue;
                    }
                    o += x[i];
                    if (x[i] == '>' && i + 1 < x.size() && x[i + 1] == '<') o += "\n ";
                    ++i;
                }
                return o;
            };
            if (gd[0].xml.find("<!DOCTYPE") == std::string::npos) {
                gd[1] = gd[0]; gd[0].xml = spaced(gd[0].xml, false); gd[1].xml = spaced(gd[1].xml, true);
                if (gd[2].xml.find("<!DOCTYPE") == std::string::npos) gd[2].xml = spaced(gd[2].xml, g.chance(1, 2));
                docs = Json::array(); for (auto& d : gd) docs.push(d.xml);
                p["twin"] = true;
            }
        }
        bool twin = p.boolean("twin");
        auto allowed = featuresExcept({});
        static const std::vector<std::string> aborts = { "message", "key", "extfn", "encoding", "badname" };
        for (int i = 0; i < 3; ++i) {
            SSCfg sc; sc.on = pickFeatures(g, allowed, 3, 9);
            if (g.chance(1, 2)) { sc.on.insert("key"); sc.on.insert("num-any"); } if (g.chance(1, 2)) sc.on.insert("paramuse"); if (g.chance(1, 2)) sc.on.insert("extfn");
            if (g.chance(1, 2)) { sc.on.insert("gate"); if (g.fork("wp").chance(1, 2)) sc.on.insert("withparam"); } if (g.chance(1, 3)) sc.on.insert("num-gate"); if (g.chance(1, 2)) sc.on.insert("sortlang"); if (g.chance(1, 3)) sc.on.insert("lazyvar");
            sc.keyVariant = (int)g.below(3); if (g.chance(1, 2)) sc.on.insert("key-prefixed"); if (g.chance(1, 2)) sc.on.insert("key-variant"); if (g.chance(1, 4)) sc.on.insert("rtf-key"); if (g.chance(1, 4)) sc.on.insert("ext-evaluate");
            { unsigned m = (unsigned)g.below(12); if (m == 0) { sc.method = ""; sc.rootName = "html"; } else if (m == 1) sc.method = "html"; else if (m == 2) sc.method = "text"; else if (m == 3) { sc.method = ""; } }   // output method: xml mostly; html, text, and the switch to html after the first element
            sc.dfVariant = (int)g.below(3); if (g.chance(1, 2)) sc.on.insert("fmtnum-df"); if (g.chance(1, 2)) sc.on.insert("sort-gate"); if (g.fork("sort-avt").chance(1, 3)) sc.on.insert("sort-avt"); if (g.chance(1, 4)) sc.on.insert("bignum-alpha");
            { static const std::vector<std::string> langs = { "de", "de", "fr", "en" }; static const std::vector<std::string> cases = { "", "upper-first", "lower-first" }; sc.sortLang = g.pick(langs); sc.sortCase = g.pick(cases); }
            sc.useImport = g.chance(1, 3); sc.useInclude = g.chance(1, 4); sc.docFn = g.chance(1, 3); sc.stripSpace = g.chance(1, 3) || (twin && i == 0);
            if (sc.stripSpace && (g.chance(1, 2) || twin)) { static const std::vector<std::string> sets = { "doc sec", "a b c", "item p", "doc a item", "sec c d p1:a" }; sc.stripNames = g.pick(sets); }      // named elements: the answer depends on the parent's name
            if (g.chance(1, 4)) sc.indentAmount = (int)g.below(6);
            static const std::vector<std::string> encs = { "UTF-8", "UTF-8", "UTF-16", "ISO-8859-1", "US-ASCII" }; sc.encoding = g.pick(encs);
            static const std::vector<std::string> orders = { "doc", "rk", "rev" }; sc.order = g.pick(orders);
            if (i > 0) { sc.abortPlace = (int)g.below(3); sc.abortKind = g.pick(aborts); const GenDoc& d = gd[g.below(3)]; sc.abortNode = d.ids[g.below(std::min<size_t>(d.ids.size(), 12))]; }
            sab.push(sc.abortKind);
            GenSS s = genStylesheet(g, sc, gd[0]); sheets.push(s.xsl); for (auto& kv : s.resources) res[kv.first] = kv.second;
        }
        p["docs"] = docs; p["sheets"] = sheets; p["resources"] = res; p["sheet_aborts"] = sab;
        // history
        Json ops = Json::array(); int n = (int)gh.range(4, tier == "thorough" ? 30 : 18);
        auto op = [&](const char* k) -> Json& { Json o = Json::object(); o["op"] = k; return ops.push(o); };
        for (int i = 0; i < n; ++i) {
            unsigned r = (unsigned)gh.below(40);
            if (r < 3) { Json& o = op("compile"); o["sheet"] = (int)gh.below(3); }
            else if (r < 6) { Json& o = op("parse"); o["doc"] = (int)gh.below(3); o["xerces"] = gh.chance(1, 3); }
            else if (r < 26) {
                Json& o = op("transform"); o["doc"] = (int)gh.below(3); o["sheet"] = (int)(gh.chance(1, 2) ? 0 : gh.below(3));
                static const std::vector<std::string> sf = { "stream", "stream", "parsed", "parsed", "inputsource", "builder" }; static const std::vector<std::string> ssf = { "stream", "compiled", "compiled", "inputsource" };
                static const std::vector<std::string> tf = { "callback", "callback", "ostream", "writer", "cfile", "xercesdom", "sourcetree" };   // the last two hand the processor a caller-owned FormatterListener
                o["src"] = gh.pick(sf); o["ss"] = gh.pick(ssf); o["target"] = gh.pick(tf); o["psi"] = (int)gh.below(5); o["csi"] = (int)gh.below(5);
                unsigned f = (unsigned)gh.below(12);
                const std::string& db = gd[o.num("doc")].xml;
                if (f == 0) { SrcFault sf2; sf2.kind = gh.chance(1, 2) ? "truncate" : "flip"; sf2.a = gh.below(db.size()); sf2.b = gh.below(8); o["docFault"] = sf2.toJson(); }
                else if (f == 1) { SrcFault sf2; sf2.kind = gh.chance(1, 2) ? "truncate" : "flip"; sf2.a = gh.below(2000); sf2.b = gh.below(8); o["xslFault"] = sf2.toJson(); }
                else if (f == 2 || f == 3) { SinkFault k; static const std::vector<std::string> sk = { "short", "throw", "bad", "flushfail" }; k.kind = gh.pick(sk); k.at = 1 + gh.below(12); o["sinkFault"] = k.toJson(); }
                else if (f == 4 && res.size()) { Json rf = Json::object(); rf["name"] = res.o[gh.below(res.o.size())].first; rf["kind"] = gh.chance(1, 2) ? "missing" : "throwing"; o["resFault"] = rf; }
                else if (f == 5) { o["fnFailAt"] = (long long)(1 + gh.below(30)); }
            }
            else if (r < 29 && gh.chance(1, 4)) { Json& o = op("param"); o["name"] = "N"; o["kind"] = "node"; o["psi"] = (int)gh.below(5); o["value"] = ""; }     // a node of a parsed source that is alive (no-op when there is none)
            else if (r < 29) { Json& o = op("param"); static const std::vector<std::string> nm = { "P1", "P2", "Q" }; o["name"] = gh.pick(nm); unsigned k = (unsigned)gh.below(4);
                if (k == 0) { o["kind"] = "number"; o["value"] = std::to_string(gh.range(-5, 500)); { Rng gz = gh.fork("zero"); if (gz.chance(1, 3)) { const bool neg = gz.chance(1, 2); o["value"] = neg ? "-0" : "0"; o["name"] = "P2";      /* both zeros, with another number in between: equal as numbers, different under division */
                      Json& o2 = op("param"); o2["name"] = "P2"; o2["kind"] = "number"; o2["value"] = std::to_string(gz.range(1, 50)); Json& o3 = op("param"); o3["name"] = "P2"; o3["kind"] = "number"; o3["value"] = neg ? "0" : "-0"; continue; } } } else if (k == 1) { o["kind"] = "string"; unsigned q = (unsigned)gh.below(8); o["value"] = q == 0 ? std::string("abort") : q == 1 ? std::string("badkey") : q < 4 ? "n" + std::to_string(gh.below(12)) : "s" + std::to_string(gh.below(100)); if (q < 4) o["name"] = "P1"; }
                else if (k == 2) { o["kind"] = "expr"; static const std::vector<std::string> ex = { "1 + 2", "'lit'", "concat('a','b')", "7 div 2", "true()" }; o["value"] = gh.pick(ex); }
                else { o["kind"] = "expr"; o["value"] = "((bad"; } }
            else if (r < 31) op("clear-params");
            else if (r < 33) op(gh.chance(2, 3) ? "install-fn" : "uninstall-fn");
            else if (r < 35) { Json& o = op("set"); static const std::vector<std::string> w = { "indent", "encoding", "meta", "escape", "validation" }; o["what"] = gh.pick(w); o["value"] = (int)gh.below(3); }
            else if (r < 36) op(gh.chance(1, 3) ? "getters" : gh.chance(1, 2) ? "trace-add" : "trace-remove");
            else if (r < 38) { Json& o = op("destroy-ss"); o["i"] = (int)gh.below(5); }
            else if (r < 39) { Json& o = op("destroy-src"); o["i"] = (int)gh.below(5); }
            else op("destroy-unknown");
        }
        // always end with a feature-rich success so that leaked state has something to show up in
        { Json& o = op("transform"); o["doc"] = 0; o["sheet"] = 0; o["src"] = "parsed"; o["ss"] = "compiled"; o["target"] = "callback"; o["psi"] = 0; o["csi"] = 0; }
        p["ops"] = ops;
        return p;
    }

    struct Live { std::vector<std::pair<const XalanCompiledStylesheet*, int>> sheets; std::vector<std::tuple<const XalanParsedSource*, int, bool>> sources; };

    // run one transform op on env; compiled/parsed inputs are taken from `live` when asked for and available (modulo), otherwise built afresh from bytes
    XformOut doTransform(XEnv& env, const Json& plan, const Json& o, Live* live, Result* cnt) {
        XReq rq; int di = (int)o.num("doc") % 3, si = (int)o.num("sheet") % 3;
        rq.srcForm = o.str("src", "stream"); rq.ssForm = o.str("ss", "stream"); rq.tgtForm = o.str("target", "callback");
        const XalanParsedSource* ps = nullptr; const XalanCompiledStylesheet* cs = nullptr; bool ownPs = false, ownCs = false; bool xercesSrc = false;
        if (live) {   // resolve handles modulo what exists; the op then uses the bytes those handles were built from
            if (rq.srcForm == "parsed" && !live->sources.empty()) { auto& t = live->sources[o.num("psi") % live->sources.size()]; ps = std::get<0>(t); di = std::get<1>(t); xercesSrc = std::get<2>(t); }
            if (rq.ssForm == "compiled" && !live->sheets.empty()) { auto& t = live->sheets[o.num("csi") % live->sheets.size()]; cs = t.first; si = t.second; }
        }
        rq.doc = plan.at("docs").a[di].s; rq.xsl = plan.at("sheets").a[si].s;
        rq.docFault = SrcFault::fromJson(o.at("docFault")); rq.xslFault = SrcFault::fromJson(o.at("xslFault")); rq.sinkFault = SinkFault::fromJson(o.at("sinkFault"));
        if (!rq.xslFault.kind.empty()) rq.xslFault.a %= std::max<size_t>(1, rq.xsl.size());
        // A handle that already exists was built earlier, from fault-free bytes with every resource present: the faults of
        // this op do not apply to it.  The reference emulates such a handle (prebuiltPs/prebuiltCs) by building it without faults.
        env.fs.faults.clear(); env.fs.missing.clear(); env.fs.throwing.clear();
        auto armResFault = [&]() { if (o.has("resFault")) { const Json& rf = o.at("resFault"); if (rf.str("kind") == "missing") env.fs.missing.insert(rf.str("name")); else env.fs.throwing.insert(rf.str("name")); } };
        XformOut out; SimSink sink;
        const bool emuPs = !live && o.boolean("prebuiltPs"), emuCs = !live && o.boolean("prebuiltCs");
        if (rq.srcForm == "parsed" && !ps) {
            SrcFault f = emuPs ? SrcFault() : rq.docFault;
            std::string seen = applySrcFault(rq.doc, f); SimIStream is(seen, f); XSLTInputSource in(&is, env.manager()); in.setSystemId(xs(std::string(SIM_BASE) + "doc.xml", env.manager()).c_str());
            int st = env.T->parseSource(in, ps, o.boolean("xerces")); if (st != 0) { out.status = st; out.err = env.T->getLastError(); out.errEmpty = out.err.empty(); return out; } ownPs = true;
        }
        if (rq.ssForm == "compiled" && !cs) {
            env.fs.put("ss.xsl", rq.xsl);
            if (!emuCs) armResFault();
            SrcFault f = emuCs ? SrcFault() : rq.xslFault;
            std::string seen = applySrcFault(rq.xsl, f); SimIStream is(seen, f); XSLTInputSource in(&is, env.manager()); in.setSystemId(xs(std::string(SIM_BASE) + "ss.xsl", env.manager()).c_str());
            int st = env.T->compileStylesheet(in, cs); if (st != 0) { if (ownPs) env.T->destroyParsedSource(ps); out.status = st; out.err = env.T->getLastError(); out.errEmpty = out.err.empty(); return out; } ownCs = true;
        }
        armResFault();
        (void)xercesSrc;
        g_fn.calls = 0; g_fn.failAt = (uint64_t)o.num("fnFailAt");
        out = runTransform(env, rq, sink, ps, cs);
        if (cnt) {
            if (!rq.docFault.kind.empty() && !ps) cnt->count("fault:src-" + rq.docFault.kind);
            if (!rq.xslFault.kind.empty() && !(cs && !ownCs)) cnt->count("fault:src-" + rq.xslFault.kind);
            if (out.sinkFaults) cnt->count("fault:sink-" + rq.sinkFault.kind);
            if (o.has("resFault")) cnt->count("fault:res-" + o.at("resFault").str("kind"));
            if (g_fn.failAt && g_fn.calls >= g_fn.failAt) cnt->count("fault:abort-callback");
            const Json& sab = plan.at("sheet_aborts"); if (!out.ok() && (size_t)si < sab.a.size() && !sab.a[si].s.empty()) cnt->count("fault:abort-" + sab.a[si].s + "(transform failed)");
        }
        g_fn.failAt = 0;
        if (ownCs) env.T->destroyStylesheet(cs); if (ownPs) env.T->destroyParsedSource(ps);
        return out;
    }

    void execute(const Json& plan, Result& res, Trace& tr) override {
        SimMemoryManager mm; mm.reuse = plan.boolean("reuse");
        Model model; CountingTrace tlT;
        {
            XEnv env(&mm); Live live; xercesc::MemoryManager& M = env.manager();
            for (auto& kv : plan.at("resources").o) env.fs.put(kv.first, kv.second.s);
            const Json& ops = plan.at("ops"); std::string prevOutcome = "start"; const XalanParsedSource* nodeParamSrc = nullptr;
            for (size_t i = 0; i < ops.a.size(); ++i) {
                const Json& o = ops.a[i]; std::string k = o.str("op"); std::string outcome = k;
                XformOut ex;
                try {
                    if (k == "compile") {
                        int si = (int)o.num("sheet") % 3; const std::string& x = plan.at("sheets").a[si].s; env.fs.put("ss.xsl", x);
                        SimIStream is(x, SrcFault()); XSLTInputSource in(&is, M); in.setSystemId(xs(std::string(SIM_BASE) + "ss.xsl", M).c_str());
                        const XalanCompiledStylesheet* cs = nullptr; int st = env.T->compileStylesheet(in, cs); if (st == 0 && cs) live.sheets.emplace_back(cs, si);
                        tr.ev("compile " + std::to_string(si) + " st=" + std::to_string(st));
                    } else if (k == "parse") {
                        int di = (int)o.num("doc") % 3; SimIStream is(plan.at("docs").a[di].s, SrcFault()); XSLTInputSource in(&is, M); in.setSystemId(xs(std::string(SIM_BASE) + "doc.xml", M).c_str());
                        const XalanParsedSource* ps = nullptr; int st = env.T->parseSource(in, ps, o.boolean("xerces")); if (st == 0 && ps) live.sources.emplace_back(ps, di, o.boolean("xerces"));
                        tr.ev("parse " + std::to_string(di) + " st=" + std::to_string(st));
                    } else if (k == "transform") {
                        g_clock.reset();
                        XformOut a = doTransform(env, plan, o, &live, &res);
                        // reference: a fresh transformer with the model's settings
                        g_clock.reset();
                        XformOut b; uint64_t cbCalls = 0;
                        { XEnv fresh; for (auto& kv : plan.at("resources").o) fresh.fs.put(kv.first, kv.second.s); CountingTrace tlF; applyModel(fresh, model, tlF, &plan);
                          // the reference uses the same byte material the handles of T were built from
                          Json o2 = o; if (o.str("src") == "parsed" && !live.sources.empty()) { auto& t = live.sources[o.num("psi") % live.sources.size()]; o2["doc"] = std::get<1>(t); o2["xerces"] = std::get<2>(t); o2["prebuiltPs"] = true; }
                          if (o.str("ss") == "compiled" && !live.sheets.empty()) { auto& t = live.sheets[o.num("csi") % live.sheets.size()]; o2["sheet"] = t.second; o2["prebuiltCs"] = true; }
                          b = doTransform(fresh, plan, o2, nullptr, nullptr); cbCalls = g_fn.calls; removeScratch(fresh); }
                        (void)cbCalls;
                        outcome = std::string("transform:") + (a.threw ? "exception" : a.status == 0 ? "ok" : "error");
                        res.count("transforms"); res.count(std::string("outcome:") + (a.threw ? "exception" : a.status == 0 ? "success" : "aborted"));
                        std::string sigBase = o.str("src") + ">" + o.str("ss");
                        tr.ev("transform st=" + std::to_string(a.status) + "/" + std::to_string(b.status) + " threw=" + a.exc + "/" + b.exc + " out=" + hex64(fnvStr(a.bytes)) + "/" + hex64(fnvStr(b.bytes)));
                        if (a.status != b.status || a.threw != b.threw) res.violate("status-differs", prevOutcome.substr(0, prevOutcome.find(':')) + "->" + sigBase, "op#" + std::to_string(i) + " reused transformer: status " + std::to_string(a.status) + (a.threw ? " exception " + a.exc : "") + " [" + a.err.substr(0, 200) + "]; fresh transformer: status " + std::to_string(b.status) + (b.threw ? " exception " + b.exc : "") + " [" + b.err.substr(0, 200) + "]");
                        else if (a.bytes != b.bytes) { std::string d; std::string f = firstObsDiff(b.bytes, a.bytes, &d); res.violate("output-differs", f, "op#" + std::to_string(i) + " (" + sigBase + ", after " + prevOutcome + "): fresh vs reused: " + d); }
                        else if (a.status != 0 && a.errEmpty != b.errEmpty) res.violate("error-message-differs", sigBase, "op#" + std::to_string(i) + ": error message empty=" + std::to_string(a.errEmpty) + " on the reused transformer, " + std::to_string(b.errEmpty) + " on a fresh one");
                        if (!a.ok() && i + 1 < ops.a.size() && ops.a[i + 1].str("op") == "transform") res.count("probe:abort-then-transform");
                        res.tag(prevOutcome + "->" + outcome);
                    } else if (k == "param" && o.str("kind") == "node") {
                        if (!live.sources.empty()) { auto& t = live.sources[o.num("psi") % live.sources.size()]; const XalanParsedSource* ps = std::get<0>(t);
                            if (ps->getDocument() && ps->getDocument()->getDocumentElement()) { env.T->setStylesheetParam(xs("N", M), (XalanNode*)ps->getDocument()->getDocumentElement()); nodeParamSrc = ps;
                                Param p{ "N", "node", std::to_string(std::get<1>(t)) + "/" + (std::get<2>(t) ? "1" : "0") }; bool found = false; for (auto& q : model.params) if (q.name == p.name) { q = p; found = true; } if (!found) model.params.push_back(p); res.count("probe:node-set-parameter"); } }
                    } else if (k == "param") { Param p{ o.str("name"), o.str("kind"), o.str("value") }; std::vector<Param> one{ p }; applyParams(*env.T, one, M);
                        bool found = false; for (auto& q : model.params) if (q.name == p.name) { q = p; found = true; } if (!found) model.params.push_back(p); }
                    else if (k == "clear-params") { env.T->clearStylesheetParams(); model.params.clear(); nodeParamSrc = nullptr; }
                    else if (k == "install-fn") { env.T->installExternalFunction(xs("urn:x-ext", M), xs("sq", M), FunctionSq()); model.fnInstalled = true; }
                    else if (k == "uninstall-fn") { env.T->uninstallExternalFunction(xs("urn:x-ext", M), xs("sq", M)); model.fnInstalled = false; }
                    else if (k == "set") { std::string w = o.str("what"); int v = (int)o.num("value");
                        if (w == "indent") { model.indent = v * 2; env.T->setIndent(model.indent); }
                        else if (w == "encoding") { static const char* e[] = { "UTF-8", "ISO-8859-1", "UTF-16" }; model.encoding = e[v % 3]; env.T->setOutputEncoding(xs(model.encoding, M)); }
                        else if (w == "meta") { model.meta = 1 + v % 2; env.T->setOmitMETATag(model.meta == 1 ? XalanTransformer::eOmitMETATagYes : XalanTransformer::eOmitMETATagNo); }
                        else if (w == "escape") { model.escape = 1 + v % 2; env.T->setEscapeURLs(model.escape == 1 ? XalanTransformer::eEscapeURLsYes : XalanTransformer::eEscapeURLsNo); }
                        else { model.validation = false; env.T->setUseValidation(false); } }
                    else if (k == "getters") {      /* what the transformer reports about itself between transformations is what was set */
                        const int ind = env.T->getIndent(), wantInd = model.indent; const bool val = env.T->getUseValidation();
                        const int esc = (int)env.T->getEscapeURLs(), wantEsc = model.escape == 0 ? (int)XalanTransformer::eEscapeURLsDefault : model.escape == 1 ? (int)XalanTransformer::eEscapeURLsYes : (int)XalanTransformer::eEscapeURLsNo;
                        const int meta = (int)env.T->getOmitMETATag(), wantMeta = model.meta == 0 ? (int)XalanTransformer::eOmitMETATagDefault : model.meta == 1 ? (int)XalanTransformer::eOmitMETATagYes : (int)XalanTransformer::eOmitMETATagNo;
                        res.count("probe:getters");
                        if (ind != wantInd) res.violate("setting-differs", "indent", "getIndent() returns " + std::to_string(ind) + ", the last value set is " + std::to_string(wantInd) + " (-1: never set)");
                        if (val != model.validation) res.violate("setting-differs", "validation", "getUseValidation() differs from the last value set");
                        if (esc != wantEsc) res.violate("setting-differs", "escape-urls", "getEscapeURLs() returns " + std::to_string(esc) + ", set " + std::to_string(wantEsc));
                        if (meta != wantMeta) res.violate("setting-differs", "omit-meta", "getOmitMETATag() returns " + std::to_string(meta) + ", set " + std::to_string(wantMeta));
                    }
                    else if (k == "trace-add") { if (!model.trace) { env.T->addTraceListener(&tlT); model.trace = true; } }
                    else if (k == "trace-remove") { if (model.trace) { env.T->removeTraceListener(&tlT); model.trace = false; } }
                    else if (k == "destroy-ss") { if (!live.sheets.empty()) { size_t j = o.num("i") % live.sheets.size(); int st = env.T->destroyStylesheet(live.sheets[j].first); live.sheets.erase(live.sheets.begin() + j); if (st != 0) res.violate("destroy-failed", "stylesheet", "destroyStylesheet of a live handle returned " + std::to_string(st)); } }
                    else if (k == "destroy-src") { if (!live.sources.empty()) { size_t j = o.num("i") % live.sources.size();
                        if (std::get<0>(live.sources[j]) == nodeParamSrc) { Param p{ "N", "expr", "/.." }; std::vector<Param> one{ p }; applyParams(*env.T, one, M); for (auto& q : model.params) if (q.name == "N") q = p; nodeParamSrc = nullptr; }   /* the caller's duty: the node outlives its use as a parameter */
                         int st = env.T->destroyParsedSource(std::get<0>(live.sources[j])); live.sources.erase(live.sources.begin() + j); if (st != 0) res.violate("destroy-failed", "source", "destroyParsedSource of a live handle returned " + std::to_string(st)); } }
                    else if (k == "destroy-unknown") { int dummy = 0; int st = env.T->destroyStylesheet((const XalanCompiledStylesheet*)&dummy); const char* e = st ? env.T->getLastError() : ""; if (st == 0 || !e || !*e) res.violate("destroy-unknown-accepted", "stylesheet", "destroying an unknown handle returned " + std::to_string(st) + " / empty message"); }
                }
                SIM_CATCH_ALL(ex)
                if (ex.threw) res.violate("escaped-exception", k + ":" + ex.exc.substr(0, 40), "op#" + std::to_string(i) + " " + k + " let " + ex.exc + " escape");
                res.count("op:" + k);
                prevOutcome = outcome;
            }
            removeScratch(env);
            env.destroyTransformer();
        }
        if (mm.foreignFrees || mm.doubleFrees) res.violate("bad-free", mm.firstBadFree, "memory manager saw " + mm.firstBadFree);
        if (mm.liveBlocks != 0) res.count("probe:blocks-after-destruction", (int64_t)mm.liveBlocks);
        tr.ev("end live=" + std::to_string(mm.liveBlocks));
    }
};

} // namespace

int main(int argc, char** argv) { C06 d; return driverMain(argc, argv, d); }
