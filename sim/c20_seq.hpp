// C20 — sequence containers: XalanVector, XalanList, XalanDeque against std::vector<int> models of element ids.
#pragma once
#include "c20_common.hpp"

namespace c20 {

template <class T> struct PeekList : public xalanc::XalanList<T> {
    explicit PeekList(MemoryManager& m) : xalanc::XalanList<T>(m) {}
    bool freeNonEmpty() const { return this->m_freeListHeadPtr != 0; }
};

// ================================================================================================== XalanVector
template <class E> struct VecRun {
    typedef typename E::T T; typedef xalanc::XalanVector<T> V; typedef typename E::Val Val;
    Run& R; V* a; V* b; std::vector<int> ma, mb;

    explicit VecRun(Run& r) : R(r), a(0), b(0) {
        R.apiClass = "XalanVector";
        a = new V(R.mm, (size_t)(R.plan.at("knobs").num("cap", 0) & 15));
        b = new V(R.mmB());
        R.snapshot = [this] { Json o = Json::object(); o["op"] = "force_state"; o["a"] = jsonInts(ma); o["b"] = jsonInts(mb); return o; };
    }
    static std::vector<int> read(const V& v) {
        std::vector<int> r; for (typename V::const_iterator it = v.begin(); it != v.end(); ++it) r.push_back(E::id(*it)); return r;
    }
    void verify(V& v, const std::vector<int>& m, const char* which) {
        const V& cv = v; const size_t n = cv.size(); const std::string w = which;
        if (n != m.size()) { R.inconsistent("size", w + ".size()=" + std::to_string(n) + " but iteration gives " + std::to_string(m.size()) + " elements"); R.stop = true; return; }
        if (cv.empty() != m.empty()) R.inconsistent("empty", w + ".empty() disagrees with size()");
        if (cv.capacity() < n) R.inconsistent("capacity", w + ".capacity() < size()");
        for (size_t i = 0; i < n; ++i) if (E::id(cv[i]) != m[i]) { R.inconsistent("index", w + "[" + std::to_string(i) + "] is " + std::to_string(E::id(cv[i])) + ", iteration gave " + std::to_string(m[i])); break; }
        if (n) {
            if (E::id(cv.front()) != m.front() || E::id(v.front()) != m.front()) R.inconsistent("front", w + ".front()");
            if (E::id(cv.back()) != m.back() || E::id(v.back()) != m.back()) R.inconsistent("back", w + ".back()");
        }
    }
    std::string stateOf(const V& v) const {
        const size_t n = v.size(), c = v.capacity();
        if (c == 0) return "unallocated"; if (n == 0) return "empty-with-capacity"; if (n == c) return "full"; return "has-room";
    }
    void after(const std::vector<int>& postA, Shape shA, const std::vector<int>* postB = 0, Shape shB = ATOMIC) {
        { std::vector<int> S = read(*a); R.settleSeq(ma, postA, S, shA, "A"); }
        { std::vector<int> S = read(*b); std::vector<int> pb = postB ? *postB : mb; R.settleSeq(mb, pb, S, shB, "B"); }
        verify(*a, ma, "A"); if (!R.stop) verify(*b, mb, "B");
        if (E::counted) R.checkCounted((long)(ma.size() + mb.size()));
        R.finishOp(ma.size(), hashSeq(ma) ^ (hashSeq(mb) * 31));
    }
    void skip() { R.res.count("skipped-ops"); R.tr.ev("skip " + R.kind); }

    void step() {
        const std::string o = R.op->str("op"); R.kind = o; R.stateClass = stateOf(*a);
        const size_t n = ma.size(); const size_t cap0 = a->capacity();
        std::vector<int> post = ma;
        if (o == "force_state") {
            const std::vector<int> va = R.vals("a"), vb = R.vals("b"); V ta(R.mm), tb(R.mm);
            for (int v : va) { Val x(v, R.mm); ta.push_back(x.x); } for (int v : vb) { Val x(v, R.mm); tb.push_back(x.x); }
            if (E::counted) R.extraLive = (long)(va.size() + vb.size());
            const V& ca = ta; const V& cb = tb; a->assign(ca.begin(), ca.end()); b->assign(cb.begin(), cb.end());
            after(va, ATOMIC, &vb, ATOMIC);
        } else if (o == "push_back") {
            Val x(R.vid(), R.mm); post.push_back(R.vid());
            R.call([&] { a->push_back(x.x); }); after(post, ATOMIC);
        } else if (o == "push_back_alias") {
            if (!n) return skip(); const size_t j = R.uarg("j") % n; post.push_back(ma[j]);
            R.call([&] { a->push_back((*a)[j]); }); after(post, ATOMIC);
        } else if (o == "pop_back") {
            if (!n) return skip(); post.pop_back();
            R.call([&] { a->pop_back(); }); after(post, ATOMIC);
        } else if (o == "insert") {
            const size_t pos = R.uarg("i") % (n + 1); Val x(R.vid(), R.mm); post.insert(post.begin() + pos, R.vid());
            R.kind = pos == n ? "insert-end" : "insert-mid";
            typename V::iterator r = 0;
            R.call([&] { r = a->insert(a->begin() + pos, x.x); });
            if (!R.threw && ((size_t)(r - a->begin()) != pos || E::id(*r) != R.vid())) R.bad("returned-iterator", "insert returned an iterator to index " + std::to_string(r - a->begin()) + ", expected " + std::to_string(pos));
            after(post, pos == n ? ATOMIC : MIXED);
        } else if (o == "insert_alias") {
            if (!n) return skip(); const size_t pos = R.uarg("i") % (n + 1), j = R.uarg("j") % n; post.insert(post.begin() + pos, ma[j]);
            R.kind = pos == n ? "insert_alias-end" : "insert_alias-mid";
            R.call([&] { a->insert(a->begin() + pos, (*a)[j]); }); after(post, pos == n ? ATOMIC : MIXED);
        } else if (o == "insert_n") {
            const size_t pos = R.uarg("i") % (n + 1), cnt = R.uarg("n") % 8; Val x(R.vid(), R.mm); post.insert(post.begin() + pos, cnt, R.vid());
            R.kind = pos == n ? "insert_n-end" : "insert_n-mid";
            R.call([&] { a->insert(a->begin() + pos, cnt, x.x); }); after(post, pos == n ? APPEND : MIXED);
        } else if (o == "insert_range" || o == "assign_range" || o == "ctor_range") {
            const std::vector<int> vs = R.vals(); V t(R.mm); for (int v : vs) { Val x(v, R.mm); t.push_back(x.x); }
            if (E::counted) R.extraLive = (long)vs.size();
            const V& ct = t;
            if (o == "insert_range") {
                const size_t pos = R.uarg("i") % (n + 1); post.insert(post.begin() + pos, vs.begin(), vs.end());
                R.kind = pos == n ? "insert_range-end" : "insert_range-mid";
                R.call([&] { a->insert(a->begin() + pos, ct.begin(), ct.end()); }); after(post, pos == n ? APPEND : MIXED);
            } else if (o == "assign_range") {
                post = vs; R.call([&] { a->assign(ct.begin(), ct.end()); }); after(post, REFILL);
            } else {
                V* c = 0; R.call([&] { c = new V(ct.begin(), ct.end(), R.mm); });
                std::vector<int> pb = mb;
                if (c) { if (read(*c) != vs) R.bad("constructed-contents", "range constructor gave " + show(read(*c)) + " for " + show(vs)); b->swap(*c); pb = vs; delete c; }
                after(post, ATOMIC, &pb, ATOMIC);
            }
        } else if (o == "erase") {
            if (!n) return skip(); const size_t pos = R.uarg("i") % n; post.erase(post.begin() + pos);
            R.kind = pos + 1 == n ? "erase-last" : "erase-mid";
            typename V::iterator r = 0; R.call([&] { r = a->erase(a->begin() + pos); });
            if (!R.threw && (size_t)(r - a->begin()) != pos) R.bad("returned-iterator", "erase returned index " + std::to_string(r - a->begin()) + ", expected " + std::to_string(pos));
            after(post, MIXED);
        } else if (o == "erase_range") {
            const size_t first = R.uarg("i") % (n + 1), cnt = std::min<size_t>(R.uarg("n") % 8, n - first); post.erase(post.begin() + first, post.begin() + first + cnt);
            R.kind = cnt == 0 ? "erase_range-empty" : (first + cnt == n ? "erase_range-tail" : "erase_range-mid");
            typename V::iterator r = 0; R.call([&] { r = a->erase(a->begin() + first, a->begin() + first + cnt); });
            if (!R.threw && (size_t)(r - a->begin()) != first) R.bad("returned-iterator", "erase(range) returned index " + std::to_string(r - a->begin()) + ", expected " + std::to_string(first));
            after(post, MIXED);
        } else if (o == "resize") {
            const size_t want = R.uarg("n") % 14; Val x(R.vid(), R.mm); post.resize(want, R.vid());
            R.kind = want > n ? "resize-grow" : want < n ? "resize-shrink" : "resize-same";
            R.call([&] { a->resize(want, x.x); }); after(post, want > n ? APPEND : TRUNC);
        } else if (o == "resize_alias") {
            // the fill value is an element of the vector itself, and growing may reallocate (std::vector must cope; so must this one)
            if (!n) return skip(); const size_t i = R.uarg("i") % n, want = n + 1 + R.uarg("n") % 12; post.resize(want, ma[i]);
            R.kind = want > a->capacity() ? "resize_alias-reallocating" : "resize_alias-in-capacity";
            R.call([&] { a->resize(want, (*a)[i]); }); after(post, APPEND);
        } else if (o == "resize_default") {
            const size_t want = R.uarg("n") % 14; post.resize(want, 0);
            R.kind = want > n ? "resize_default-grow" : want < n ? "resize_default-shrink" : "resize_default-same";
            R.call([&] { a->resize(want); }); after(post, want > n ? APPEND : TRUNC);
        } else if (o == "reserve") {
            const size_t want = R.uarg("n") % 24; R.kind = want > cap0 ? "reserve-more" : "reserve-noop";
            R.call([&] { a->reserve(want); });
            if (!R.threw && a->capacity() < want) R.bad("capacity", "capacity() " + std::to_string(a->capacity()) + " after reserve(" + std::to_string(want) + ")");
            after(post, ATOMIC);
        } else if (o == "clear") {
            post.clear(); R.call([&] { a->clear(); }); after(post, TRUNC);
        } else if (o == "swap") {
            std::vector<int> pb = ma; post = mb; R.call([&] { a->swap(*b); }); after(post, ATOMIC, &pb, ATOMIC);
        } else if (o == "assign_from_b") {
            post = mb; R.kind = cap0 < mb.size() ? "assign_from_b-realloc" : "assign_from_b-inplace";
            R.call([&] { *a = *b; }); after(post, MIXED);
        } else if (o == "assign_to_b") {
            std::vector<int> pb = ma; R.call([&] { *b = *a; }); after(post, ATOMIC, &pb, MIXED);
        } else if (o == "self_assign") {
            R.call([&] { V& alias = *a; *a = alias; }); after(post, ATOMIC);
        } else if (o == "copy_ctor") {
            const size_t cap = R.uarg("cap") % 12; V* c = 0;
            R.call([&] { c = new V(*a, R.mm, cap); });
            if (c) {
                if (read(*c) != ma) R.bad("copy-contents", "copy is " + show(read(*c)) + ", source " + show(ma));
                if (c->capacity() < std::max(cap, ma.size()) && (cap || !ma.empty())) R.bad("copy-capacity", "capacity " + std::to_string(c->capacity()));
                if (R.arg("keep")) a->swap(*c);
                delete c;
            }
            after(post, ATOMIC);
        } else if (o == "ctor_fill") {
            const size_t cnt = R.uarg("n") % 8; Val x(R.vid(), R.mm); V* c = 0;
            R.call([&] { c = new V(cnt, x.x, R.mm); });
            std::vector<int> pb = mb;
            if (c) { pb.assign(cnt, R.vid()); if (read(*c) != pb) R.bad("constructed-contents", "fill constructor gave " + show(read(*c))); b->swap(*c); delete c; }
            after(post, ATOMIC, &pb, ATOMIC);
        } else if (o == "set") {
            if (!n) return skip(); const size_t i = R.uarg("i") % n; Val x(R.vid(), R.mm); post[i] = R.vid();
            R.call([&] { (*a)[i] = x.x; }); after(post, ATOMIC);
        } else if (o == "at") {
            const size_t i = R.uarg("i") % (n + 2); bool thr = false; int got = 0; const V& ca = *a;
            R.kind = i < n ? "at-valid" : "at-out-of-range";
            R.call([&] { try { got = E::id(ca.at(i)); got = E::id(a->at(i)); } catch (const std::out_of_range&) { thr = true; } });
            if (thr != (i >= n)) R.bad("at-throws", std::string("at(") + std::to_string(i) + ") with size " + std::to_string(n) + (thr ? " threw" : " did not throw"));
            else if (!thr && got != ma[i]) R.bad("at-value", "at(" + std::to_string(i) + ")");
            after(post, ATOMIC);
        } else if (o == "iterate") {
            std::vector<int> rv; const V& ca = *a;
            R.call([&] { for (typename V::const_reverse_iterator it = ca.rbegin(); it != ca.rend(); ++it) rv.push_back(E::id(*it)); });
            std::vector<int> want(ma.rbegin(), ma.rend());
            if (rv != want) R.bad("reverse-iteration", "got " + show(rv) + " want " + show(want));
            after(post, ATOMIC);
        } else if (o == "compare") {
            bool eq = false, ne = false; R.call([&] { eq = (*a == *b); ne = (*a != *b); });
            if (eq != (ma == mb) || ne == eq) R.bad("operator==", "A==B gives " + std::to_string(eq) + " for " + show(ma) + " vs " + show(mb));
            after(post, ATOMIC);
        } else { R.kind = "unknown-op"; return skip(); }
        if (a->capacity() != cap0) R.res.count("probe:vector-realloc");
        if (cap0 && n == cap0 && ma.size() > n) R.res.count("probe:vector-grow-from-full");
    }
    void finish() { R.phase = "destroy"; delete a; a = 0; delete b; b = 0; }
};

// ================================================================================================== XalanList
template <class E> struct ListRun {
    typedef typename E::T T; typedef PeekList<T> L; typedef xalanc::XalanList<T> Base; typedef typename E::Val Val;
    Run& R; L* a; L* b; std::vector<int> ma, mb;

    explicit ListRun(Run& r) : R(r), a(0), b(0) {
        R.apiClass = "XalanList";
        a = new L(R.mm); b = new L(R.mm);
        R.snapshot = [this] { Json o = Json::object(); o["op"] = "force_state"; o["a"] = jsonInts(ma); o["b"] = jsonInts(mb); return o; };
    }
    static std::vector<int> read(const L& l) {
        std::vector<int> r; size_t guard = 0;
        for (typename Base::const_iterator it = l.begin(); it != l.end(); ++it) { r.push_back(E::id(*it)); if (++guard > 100000) break; }
        return r;
    }
    typename Base::iterator nth(L& l, size_t i) { typename Base::iterator it = l.begin(); while (i--) ++it; return it; }
    void verify(L& l, const std::vector<int>& m, const char* which) {
        const L& cl = l; const std::string w = which; const size_t n = cl.size();
        if (n != m.size()) { R.inconsistent("size", w + ".size()=" + std::to_string(n) + " but iteration gives " + std::to_string(m.size())); R.stop = true; return; }
        if (cl.empty() != m.empty()) R.inconsistent("empty", w + ".empty() disagrees with size()");
        if (n) {
            if (E::id(l.front()) != m.front()) R.inconsistent("front", w + ".front()");
            if (E::id(l.back()) != m.back()) R.inconsistent("back", w + ".back()");
        }
        std::vector<int> rv; size_t guard = 0;
        for (typename Base::const_reverse_iterator it = cl.rbegin(); it != cl.rend(); ++it) { rv.push_back(E::id(*it)); if (++guard > 100000) break; }
        if (rv != std::vector<int>(m.rbegin(), m.rend())) R.inconsistent("reverse-iteration", w + " backwards is " + show(rv) + ", forwards " + show(m));
    }
    std::string stateOf(const L& l) const { return std::string(l.empty() ? "empty" : "non-empty") + (l.freeNonEmpty() ? "+free-list-nonempty" : "+free-list-empty"); }
    void after(const std::vector<int>& postA, const std::vector<int>* postB = 0) {
        { std::vector<int> S = read(*a); R.settleSeq(ma, postA, S, ATOMIC, "A"); }
        { std::vector<int> S = read(*b); std::vector<int> pb = postB ? *postB : mb; R.settleSeq(mb, pb, S, ATOMIC, "B"); }
        verify(*a, ma, "A"); if (!R.stop) verify(*b, mb, "B");
        if (E::counted) R.checkCounted((long)(ma.size() + mb.size()));
        R.finishOp(ma.size(), hashSeq(ma) ^ (hashSeq(mb) * 31));
    }
    void skip() { R.res.count("skipped-ops"); R.tr.ev("skip " + R.kind); }

    void step() {
        const std::string o = R.op->str("op"); R.kind = o; R.stateClass = stateOf(*a);
        const size_t n = ma.size(); const bool hadFree = a->freeNonEmpty();
        std::vector<int> post = ma;
        if (o == "force_state") {
            const std::vector<int> va = R.vals("a"), vb = R.vals("b"); a->clear(); b->clear();
            for (int v : va) { Val x(v, R.mm); a->push_back(x.x); } for (int v : vb) { Val x(v, R.mm); b->push_back(x.x); }
            after(va, &vb);
        }
        else if (o == "push_back") { Val x(R.vid(), R.mm); post.push_back(R.vid()); R.call([&] { a->push_back(x.x); }); after(post); }
        else if (o == "push_front") { Val x(R.vid(), R.mm); post.insert(post.begin(), R.vid()); R.call([&] { a->push_front(x.x); }); after(post); }
        else if (o == "pop_back") { if (!n) return skip(); post.pop_back(); R.call([&] { a->pop_back(); }); after(post); }
        else if (o == "pop_front") { if (!n) return skip(); post.erase(post.begin()); R.call([&] { a->pop_front(); }); after(post); }
        else if (o == "insert") {
            const size_t pos = R.uarg("i") % (n + 1); Val x(R.vid(), R.mm); post.insert(post.begin() + pos, R.vid());
            typename Base::iterator at = nth(*a, pos), r = a->end();
            R.call([&] { r = a->insert(at, x.x); });
            if (!R.threw) {
                size_t d = 0; typename Base::iterator it = a->begin(); while (it != r && it != a->end()) { ++it; ++d; }
                if (it != r || d != pos || E::id(*r) != R.vid()) R.bad("returned-iterator", "insert returned an iterator to position " + std::to_string(d) + ", expected " + std::to_string(pos));
            }
            after(post);
        }
        else if (o == "erase") { if (!n) return skip(); const size_t pos = R.uarg("i") % n; post.erase(post.begin() + pos); typename Base::iterator at = nth(*a, pos); R.call([&] { a->erase(at); }); after(post); }
        else if (o == "set") { if (!n) return skip(); const size_t pos = R.uarg("i") % n; Val x(R.vid(), R.mm); post[pos] = R.vid(); typename Base::iterator at = nth(*a, pos); R.call([&] { *at = x.x; }); after(post); }
        else if (o == "clear") { post.clear(); R.call([&] { a->clear(); }); after(post); }
        else if (o == "swap") { std::vector<int> pb = ma; post = mb; R.call([&] { a->swap(*b); }); after(post, &pb); }
        else if (o == "splice_one") {
            const bool self = R.arg("self") != 0; std::vector<int>& src = self ? ma : mb; L& ls = self ? *a : *b;
            if (src.empty()) return skip();
            const size_t j = R.uarg("j") % src.size(); size_t pos = R.uarg("i") % (n + 1);
            R.kind = self ? "splice_one-self" : "splice_one";
            std::vector<int> pb = mb;
            if (self) { std::list<int> m(ma.begin(), ma.end()); std::list<int>::iterator p = m.begin(), e = m.begin(); std::advance(p, pos); std::advance(e, j); m.splice(p, m, e); post.assign(m.begin(), m.end()); }
            else { const int v = mb[j]; pb.erase(pb.begin() + j); post.insert(post.begin() + pos, v); }
            typename Base::iterator at = nth(*a, pos), el = nth(ls, j);
            R.call([&] { a->splice(at, ls, el); }); after(post, &pb);
        }
        else if (o == "splice_range") {
            const bool self = R.arg("self") != 0; std::vector<int>& src = self ? ma : mb; L& ls = self ? *a : *b;
            const size_t first = R.uarg("j") % (src.size() + 1), cnt = std::min<size_t>(R.uarg("n") % 6, src.size() - first); size_t pos = R.uarg("i") % (n + 1);
            if (self && pos >= first && pos < first + cnt) pos = first + cnt;     // pos must not lie inside [first, last)
            R.kind = self ? "splice_range-self" : "splice_range";
            std::vector<int> pb = mb;
            if (self) { std::list<int> m(ma.begin(), ma.end()); std::list<int>::iterator p = m.begin(), f = m.begin(), l; std::advance(p, pos); std::advance(f, first); l = f; std::advance(l, cnt); m.splice(p, m, f, l); post.assign(m.begin(), m.end()); }
            else { post.insert(post.begin() + pos, mb.begin() + first, mb.begin() + first + cnt); pb.erase(pb.begin() + first, pb.begin() + first + cnt); }
            typename Base::iterator at = nth(*a, pos), f = nth(ls, first), l = nth(ls, first + cnt);
            R.call([&] { a->splice(at, ls, f, l); }); after(post, &pb);
        }
        else { R.kind = "unknown-op"; return skip(); }
        if (hadFree && ma.size() > n) R.res.count("probe:list-free-node-reused");
        if (!hadFree && a->freeNonEmpty()) R.res.count("probe:list-free-list-filled");
    }
    void finish() { R.phase = "destroy"; delete a; a = 0; delete b; b = 0; }
};

// ================================================================================================== XalanDeque
template <class E> struct DequeRun {
    typedef typename E::T T; typedef xalanc::XalanDeque<T> D; typedef typename E::Val Val;
    Run& R; D* a; D* b; std::vector<int> ma, mb; size_t bsA, bsB;

    explicit DequeRun(Run& r) : R(r), a(0), b(0) {
        R.apiClass = "XalanDeque";
        const Json& kn = R.plan.at("knobs");
        bsA = (size_t)(kn.num("bsA", 3) & 7); if (!bsA) bsA = 1; bsB = (size_t)(kn.num("bsB", 3) & 7); if (!bsB) bsB = 1;
        const size_t init = (size_t)(kn.num("init", 0) & 7);
        a = new D(R.mm, init, bsA); b = new D(R.mmB(), 0, bsB);
        ma.assign(init, 0);
        R.snapshot = [this] { Json o = Json::object(); o["op"] = "force_state"; o["a"] = jsonInts(ma); o["b"] = jsonInts(mb); return o; };
    }
    static std::vector<int> read(const D& d) {
        std::vector<int> r; size_t guard = 0;
        for (typename D::const_iterator it = d.begin(); it != d.end(); ++it) { r.push_back(E::id(*it)); if (++guard > 100000) break; }
        return r;
    }
    void verify(D& d, const std::vector<int>& m, const char* which) {
        const D& cd = d; const std::string w = which; const size_t n = cd.size();
        if (n != m.size()) { R.inconsistent("size", w + ".size()=" + std::to_string(n) + " but iteration gives " + std::to_string(m.size())); R.stop = true; return; }
        if (cd.empty() != m.empty()) R.inconsistent("empty", w + ".empty() is " + std::to_string(cd.empty()) + " with size() " + std::to_string(n));
        for (size_t i = 0; i < n; ++i) if (E::id(cd[i]) != m[i] || E::id(d[i]) != m[i]) { R.inconsistent("index", w + "[" + std::to_string(i) + "]"); break; }
        if (n && E::id(d.back()) != m.back()) R.inconsistent("back", w + ".back()");
        std::vector<int> rv; size_t guard = 0;
        for (typename D::const_reverse_iterator it = cd.rbegin(); it != cd.rend(); ++it) { rv.push_back(E::id(*it)); if (++guard > 100000) break; }
        if (rv != std::vector<int>(m.rbegin(), m.rend())) R.inconsistent("reverse-iteration", w + " backwards is " + show(rv) + ", forwards " + show(m));
    }
    std::string stateOf(const std::vector<int>& m, size_t bs) const { return m.empty() ? "empty" : (m.size() % bs == 0 ? "at-block-boundary" : "inside-block"); }
    void after(const std::vector<int>& postA, Shape shA, const std::vector<int>* postB = 0, Shape shB = ATOMIC) {
        { std::vector<int> S = read(*a); R.settleSeq(ma, postA, S, shA, "A"); }
        { std::vector<int> S = read(*b); std::vector<int> pb = postB ? *postB : mb; R.settleSeq(mb, pb, S, shB, "B"); }
        verify(*a, ma, "A"); if (!R.stop) verify(*b, mb, "B");
        if (E::counted) R.checkCounted((long)(ma.size() + mb.size()));
        R.finishOp(ma.size(), hashSeq(ma) ^ (hashSeq(mb) * 31));
    }
    void skip() { R.res.count("skipped-ops"); R.tr.ev("skip " + R.kind); }

    void step() {
        const std::string o = R.op->str("op"); R.kind = o; R.stateClass = stateOf(ma, bsA);
        const size_t n = ma.size();
        std::vector<int> post = ma;
        if (o == "force_state") {
            const std::vector<int> va = R.vals("a"), vb = R.vals("b"); a->clear(); b->clear();
            for (int v : va) { Val x(v, R.mm); a->push_back(x.x); } for (int v : vb) { Val x(v, R.mm); b->push_back(x.x); }
            after(va, ATOMIC, &vb, ATOMIC);
        }
        else if (o == "push_back") { Val x(R.vid(), R.mm); post.push_back(R.vid()); R.call([&] { a->push_back(x.x); }); after(post, ATOMIC); }
        else if (o == "pop_back") { if (!n) return skip(); post.pop_back(); R.call([&] { a->pop_back(); }); after(post, ATOMIC); }
        else if (o == "resize") {
            const size_t want = R.uarg("n") % 14; post.resize(want, 0);
            R.kind = want > n ? "resize-grow" : want < n ? "resize-shrink" : "resize-same";
            R.call([&] { a->resize(want); }); after(post, want > n ? APPEND : TRUNC);
        }
        else if (o == "clear") { post.clear(); R.call([&] { a->clear(); }); after(post, TRUNC); }
        else if (o == "swap") {
            R.kind = bsA == bsB ? "swap" : "swap-different-block-size";
            std::vector<int> pb = ma; post = mb; const int an0 = R.anomalies; R.call([&] { a->swap(*b); }); after(post, ATOMIC, &pb, ATOMIC);
            if (R.anomalies != an0 && bsA != bsB) R.stop = R.poisoned = true;      // blocks of one size under an index computed with the other: nothing after this is meaningful
        }
        else if (o == "assign_from_b") { post = mb; R.call([&] { *a = *b; }); after(post, REFILL); }
        else if (o == "assign_to_b") { std::vector<int> pb = ma; R.call([&] { *b = *a; }); after(post, ATOMIC, &pb, REFILL); }
        else if (o == "self_assign") { R.call([&] { D& alias = *a; *a = alias; }); after(post, ATOMIC); }
        else if (o == "copy_ctor") {
            // into the second manager when there is one: everything the copy owns must then come from it
            const bool other = &R.mmB() != (xercesc::MemoryManager*)&R.mm && R.arg("keep") == 0; const uint64_t liveA = R.mm.liveBlocks;
            D* c = 0; R.call([&] { c = new D(*a, other ? R.mmB() : (xercesc::MemoryManager&)R.mm); });
            if (c && other && R.mm.liveBlocks != liveA) R.bad("wrong-manager", "copy constructed with another manager took " + std::to_string((long long)(R.mm.liveBlocks - liveA)) + " block(s) from the source's manager");
            if (c && other) { if (read(*c) != ma || c->size() != ma.size()) R.bad("copy-contents", "copy is " + show(read(*c)) + " size() " + std::to_string(c->size()) + ", source " + show(ma)); delete c; c = 0; }
            if (c) { if (read(*c) != ma || c->size() != ma.size()) R.bad("copy-contents", "copy is " + show(read(*c)) + " size() " + std::to_string(c->size()) + ", source " + show(ma)); if (R.arg("keep")) a->swap(*c); delete c; }
            after(post, ATOMIC);
        }
        else if (o == "set") { if (!n) return skip(); const size_t i = R.uarg("i") % n; Val x(R.vid(), R.mm); post[i] = R.vid(); R.call([&] { (*a)[i] = x.x; }); after(post, ATOMIC); }
        else if (o == "iterate") {
            bool ok = true; std::string why;
            R.call([&] {
                typename D::iterator b0 = a->begin(), e0 = a->end();
                if ((size_t)(e0 - b0) != n) { ok = false; why = "end()-begin()"; }
                for (size_t i = 0; ok && i < n; ++i) { typename D::iterator it = b0 + (ptrdiff_t)i; if (E::id(*it) != ma[i]) { ok = false; why = "*(begin()+i)"; } if (!(it < e0) || it == e0) { ok = false; why = "iterator ordering"; } typename D::iterator back = e0 - (ptrdiff_t)(n - i); if (back != it) { ok = false; why = "end()-k"; } }
            });
            if (!ok) R.bad("iterator-arithmetic", why);
            after(post, ATOMIC);
        }
        else { R.kind = "unknown-op"; return skip(); }
        if (n && n % bsA == 0 && ma.size() > n) R.res.count("probe:deque-new-block");
        if (n && ma.size() < n && ma.size() % bsA == 0) R.res.count("probe:deque-block-released");
    }
    void finish() { R.phase = "destroy"; delete a; a = 0; delete b; b = 0; }
};

} // namespace c20
