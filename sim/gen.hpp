// Seeded workload generators: source documents and feature-composed stylesheets
// that print tagged observations <o f="feature" n="node-id">value</o>.
#pragma once
#include "core.hpp"
#include <string>
#include <vector>
#include <map>
#include <set>

namespace sim {

static const char* const NS1 = "urn:x-ns1";
static const char* const NS2 = "urn:x-ns2";
static const char* const NS1ALT = "urn:x-ns1-alt";
static const char* const NSD = "urn:x-def";

struct DocCfg {
    int maxNodes = 60;        // elements
    int maxDepth = 5;
    int maxFan = 5;
    bool manyNames = false;   // > 50 distinct element names (evicts the 50-entry pattern cache)
    bool ns = true;           // use prefixed / default namespaces
    bool rebind = false;      // some subtrees bind the prefix p1 to another namespace (same QName, different expanded-name)
    bool dtd = false;         // internal subset declaring id as ID (and DOCTYPE present)
    bool extDtd = false;      // with dtd: an external subset "ext.dtd" as well (attribute defaults, one more ID attribute); GenDoc::resources holds it
    bool comments = true, pis = true;
    bool exoticText = true;   // markup chars, non-ASCII, supplementary, CR/TAB refs
    bool wsText = true;       // whitespace-only text nodes
    bool ssPI = false;        // xml-stylesheet PI (href "ss.xsl")
    bool deep = false;        // nesting depth 200 chain
    int deepLevels = 200;
    bool longName = false;    // one 1000-character element name
    bool bigNum = false;      // numeric extremes in v attributes
};

struct GenDoc {
    std::string xml;
    int nElems = 0;
    std::vector<std::string> names;   // distinct element qnames used
    std::vector<std::string> ids;     // ids in document order
    std::map<std::string, std::string> resources;   // what the document refers to (the external DTD subset)
};

inline std::string xmlEsc(const std::string& s, bool attr = false) {
    std::string r;
    for (char c : s) {
        switch (c) {
        case '<': r += "&lt;"; break; case '&': r += "&amp;"; break; case '>': r += "&gt;"; break;
        case '"': if (attr) r += "&quot;"; else r += c; break;
        case '\r': r += "&#13;"; break;
        case '\t': if (attr) r += "&#9;"; else r += c; break;
        case '\n': if (attr) r += "&#10;"; else r += c; break;
        default: r += c;
        }
    }
    return r;
}

struct DocGen {
    Rng& g; const DocCfg& c; GenDoc out; int budget; std::vector<std::string> pool;
    DocGen(Rng& g_, const DocCfg& c_) : g(g_), c(c_), budget(c_.maxNodes) {
        if (c.manyNames) { for (int i = 0; i < 64; ++i) pool.push_back("e" + std::to_string(i)); }
        else { pool = { "a", "b", "c", "d", "item", "sec", "p" }; if (c.ns) { pool.push_back("p1:a"); pool.push_back("p1:q"); pool.push_back("p2:b"); } }
    }
    std::string text() {
        static const std::vector<std::string> words = { "alpha", "beta", "gamma", "x", "Hello world", "lorem ipsum dolor", "A", "zz top" };
        unsigned k = (unsigned)g.below(c.exoticText ? 12 : 6);
        switch (k) {
        case 0: case 1: return g.pick(words);
        case 2: return std::to_string(g.range(-50, 5000));
        case 3: return std::to_string(g.range(0, 99)) + "." + std::to_string(g.range(0, 999));
        case 4: return c.wsText ? std::string(g.chance(1, 2) ? " \n  " : " ") : "w";
        case 5: return g.pick(words) + " " + std::to_string(g.range(0, 9));
        case 6: return "a<b&c>d\"e'f";
        case 7: return "caf\xC3\xA9 \xE2\x82\xAC \xE4\xB8\xAD";                 // é € 中
        case 8: return "clef \xF0\x9D\x84\x9E end";                              // U+1D11E
        case 9: return "tab\there cr\rlf\nend";
        case 10: return "x]]>y ]] ]>";
        default: return "  padded  value ";
        }
    }
    void elem(std::string& s, int depth, const std::string& forcedName = "") {
        std::string name = forcedName.empty() ? g.pick(pool) : forcedName;
        int idn = out.nElems++; --budget;
        std::string id = "n" + std::to_string(idn);
        out.ids.push_back(id);
        bool found = false; for (auto& n : out.names) if (n == name) found = true; if (!found) out.names.push_back(name);
        s += "<" + name + " id=\"" + id + "\"";
        if (g.chance(2, 3)) s += " k=\"k" + std::to_string(g.below(4)) + "\"";
        if (g.chance(2, 3)) {
            if (c.bigNum && g.chance(1, 6)) { static const std::vector<std::string> ext = { "1e3", "123456789012345678901234567890", "0.000000000000000000000000000000000000001", "1000000000000000000000000000000000000000000000000000000000000000000000000000000000000000000", "-0", "NaN" }; s += " v=\"" + g.pick(ext) + "\""; }
            else s += " v=\"" + std::to_string(g.range(-5, 40)) + "\"";
        }
        s += " rk=\"" + std::to_string(g.below(100000)) + "\"";
        if (idn > 0 && g.chance(1, 4)) s += " ref=\"n" + std::to_string(g.chance(1, 3) ? idn + 1 + g.below(6) : g.below(idn)) + "\"";      // a third of the references point forwards
        if (g.chance(1, 8)) s += " t=\"" + xmlEsc(text(), true) + "\"";
        if (c.ns && g.chance(1, 8)) s += " p1:x=\"" + std::to_string(g.below(9)) + "\"";
        if (c.ns && g.chance(1, 12)) s += " xml:lang=\"" + std::string(g.chance(1, 2) ? "en" : "fr-CA") + "\"";
        if (c.ns && g.chance(1, 14)) s += " xmlns:p3=\"urn:x-ns3-" + std::to_string(g.below(3)) + "\"";
        if (c.ns && c.rebind && g.chance(1, 6)) s += " xmlns:p1x=\"urn:x-ns1x\" xmlns:p=\"urn:x-p\"";      // prefixes that begin like, or are the beginning of, the ones in use
        if (c.ns && c.rebind && g.chance(1, 7)) s += std::string(" xmlns:p1=\"") + (g.chance(1, 4) ? NS1 : NS1ALT) + "\"";
        if (c.ns && g.chance(1, 20)) s += std::string(" xmlns=\"") + (g.chance(1, 2) ? NSD : "") + "\"";
        int kids = (depth >= c.maxDepth || budget <= 0) ? 0 : (int)g.below(c.maxFan + 1);
        bool anyContent = false; std::string body;
        for (int i = 0; i < kids && budget > 0; ++i) {
            unsigned r = (unsigned)g.below(10);
            if (r < 3) { body += xmlEsc(text()); anyContent = true; }
            else if (r == 3 && c.comments) { body += "<!--c" + std::to_string(g.below(100)) + "-->"; anyContent = true; }
            else if (r == 4 && c.pis) { body += "<?pi" + std::to_string(g.below(3)) + " data " + std::to_string(g.below(100)) + "?>"; anyContent = true; }
            else { elem(body, depth + 1); anyContent = true; }
        }
        if (!anyContent && g.chance(1, 2)) { body += xmlEsc(text()); anyContent = true; }
        if (!anyContent) s += "/>";
        else s += ">" + body + "</" + name + ">";
    }
    GenDoc make() {
        std::string s = "<?xml version=\"1.0\" encoding=\"UTF-8\"?>\n";
        if (c.ssPI) s += "<?xml-stylesheet type=\"text/xsl\" href=\"ss.xsl\"?>\n";
        std::string body;
        std::string rootOpen;
        // root is always "doc" carrying the namespace declarations
        int idn = out.nElems++; --budget; out.ids.push_back("n" + std::to_string(idn)); out.names.push_back("doc");
        rootOpen = "<doc id=\"n0\" rk=\"" + std::to_string(g.below(100000)) + "\"";
        if (c.ns) rootOpen += std::string(" xmlns:p1=\"") + NS1 + "\" xmlns:p2=\"" + NS2 + "\"";
        if (c.ns && g.chance(1, 8)) rootOpen += " xmlns:xml=\"http://www.w3.org/XML/1998/namespace\"";      // legal, almost never written
        rootOpen += ">";
        int top = (int)g.range(2, c.maxFan + 2);
        for (int i = 0; i < top && budget > 0; ++i) {
            if (g.chance(1, 6)) body += xmlEsc(text());
            elem(body, 1);
        }
        if (c.deep) { std::string open, close; for (int i = 0; i < c.deepLevels; ++i) { open += "<d>"; close += "</d>"; } body += open + "deep" + close; }
        if (c.longName) { std::string n(1000, 'L'); body += "<" + n + " id=\"nL\">long</" + n + ">"; }
        if (c.dtd) {
            if (c.extDtd) { s += "<!DOCTYPE doc SYSTEM \"ext.dtd\" [\n"; out.resources["ext.dtd"] = "<!ATTLIST doc dflt CDATA \"dv\">\n<!ATTLIST item dfl2 (x|y) \"x\">\n<!ATTLIST a dfl3 CDATA \"three\" k CDATA \"k9\">\n<!ATTLIST sec xid ID #IMPLIED>\n"; }
            else s += "<!DOCTYPE doc [\n";
            std::vector<std::string> nm = out.names;
            for (auto& n : nm) s += "<!ATTLIST " + n + " id ID #IMPLIED ref IDREF #IMPLIED>\n";
            s += "<!NOTATION gif SYSTEM \"viewer.exe\">\n<!ENTITY pic SYSTEM \"pic.gif\" NDATA gif>\n";
            s += "]>\n";
        }
        if (c.comments && g.chance(1, 4)) s += "<!-- prolog comment -->\n";
        s += rootOpen + body + "</doc>";
        if (c.pis && g.chance(1, 5)) s += "\n<?trailer x?>";
        s += "\n";
        out.xml = s;
        return out;
    }
};

inline GenDoc genDoc(Rng& g, const DocCfg& c) { DocGen d(g, c); return d.make(); }

// ---------------------------------------------------------------------------------------------
// XPath expressions from the grammar.  safe = type-correct, right arity, no address- or form-dependent functions (for stylesheets
// whose output is compared); wild = also wrong arity, unknown names, extreme literals (for the no-crash check only).
// ---------------------------------------------------------------------------------------------
struct ExprGen {
    Rng& g; bool wild; const std::vector<std::string>& names;
    // The relative order of the attributes of one element is implementation-dependent (the native tree keeps the written order, a Xerces
    // DOM sorts by name), so a type-correct expression uses one attribute name throughout: no node-set can then hold two attributes of an element.
    std::string attr;
    // Cost: a step over a whole-document axis multiplies the work of everything nested in and after it (no de-duplication between steps),
    // so a type-correct expression gets three such steps in all; once they are spent only child / attribute / self / parent steps are drawn.
    int heavy = 3;
    ExprGen(Rng& g_, bool wild_, const std::vector<std::string>& names_) : g(g_), wild(wild_), names(names_) { static const std::vector<std::string> an = { "id", "k", "v", "rk", "ref", "k", "id" }; attr = g.pick(an); }
    std::string nm() { return names.empty() ? "a" : names[g.below(names.size())]; }
    std::string nodeTest() {
        switch (g.below(wild ? 12 : 10)) { case 0: case 1: case 2: return nm(); case 3: case 4: return "*"; case 5: return "node()"; case 6: return "text()"; case 7: return "comment()";
            case 8: return g.chance(1, 2) ? "processing-instruction()" : "processing-instruction('pi1')"; case 9: return "p1:*"; case 10: return "nosuch:x"; default: return "element()"; } }
    std::string step(int d) {
        static const std::vector<std::string> axes = { "child", "descendant", "descendant-or-self", "parent", "ancestor", "ancestor-or-self", "following-sibling", "preceding-sibling", "following", "preceding", "self", "attribute" };
        std::string s; unsigned k = (unsigned)g.below(10);
        if (k == 0) return "."; if (k == 1) return "..";
        if (k == 2) { static const std::vector<std::string> at = { "@id", "@k", "@v", "@*", "@rk", "@ref", "@p1:x", "@xml:lang" }; return wild ? g.pick(at) : "@" + attr; }
        if (k < 6) s = nodeTest();
        else { std::string ax = wild && g.chance(1, 20) ? std::string("sideways") : g.pick(axes);
            if (!wild) { static const std::vector<std::string> light = { "child", "parent", "self", "attribute", "following-sibling", "preceding-sibling" }; const bool isHeavy = ax != "child" && ax != "parent" && ax != "self" && ax != "attribute"; if (isHeavy) { if (heavy > 0) --heavy; else ax = g.pick(light); } }
            s = ax + "::" + (ax == "attribute" ? (wild ? (g.chance(1, 2) ? std::string("*") : std::string("k")) : attr) : nodeTest()); }
        int np = d > 0 ? (int)g.below(3) : 0; if (np == 2 && !g.chance(1, 3)) np = 1;
        for (int i = 0; i < np; ++i) s += "[" + pred(d - 1) + "]";
        return s;
    }
    std::string pred(int d) { unsigned k = (unsigned)g.below(6); if (k == 0) return std::to_string(g.range(1, 4)); if (k == 1) return "last()"; if (k == 2) return "position() " + std::string(g.chance(1, 2) ? "&lt; " : "&gt; ") + std::to_string(g.range(1, 3)); if (k == 3) return nset(d); return boolean(d); }
    std::string path(int d) {
        std::string s; unsigned k = (unsigned)g.below(8); if (k == 0) s = "/"; else if (k < 3) { if (wild || heavy > 0) { s = "//"; --heavy; } } else if (k == 3) s = "/doc/";
        int n = (int)g.range(1, 3); for (int i = 0; i < n; ++i) { if (i) { if (g.chance(1, 4) && (wild || heavy > 0)) { s += "//"; --heavy; } else s += "/"; } s += step(d); }
        return s;
    }
    std::string nset(int d) {
        unsigned k = (unsigned)g.below(d > 0 ? 10 : 5);
        if (k < 5) return path(d);
        if (k == 5) return nset(d - 1) + " | " + nset(d - 1);
        if (k == 6) return "(" + nset(d - 1) + ")[" + pred(d - 1) + "]";
        if (k == 7) return "id(" + (g.chance(1, 2) ? std::string("'n1 n3 n5'") : str(d - 1)) + ")";
        if (k == 8) return "(" + nset(d - 1) + ")/" + step(d - 1);
        return "(" + path(d) + ")[" + pred(d - 1) + "]";
    }
    std::string numLit() { static const std::vector<std::string> lits = { "0", "1", "2", "3", "7", "10", "0.5", "1.5", "-1", "100", "1000000", ".25", "3.", "0.000001" }; static const std::vector<std::string> wl = { "99999999999999999999999999999999", "1e3", "0x10", "-0", "1 div 0", "0 div 0", "9223372036854775807", "4294967296", "-2147483649" }; return wild && g.chance(1, 4) ? g.pick(wl) : g.pick(lits); }
    std::string num(int d) {
        unsigned k = (unsigned)g.below(d > 0 ? 12 : 4);
        if (k < 2) return numLit(); if (k == 2) return "position()"; if (k == 3) return "count(" + path(0) + ")";
        if (k == 4) return "count(" + nset(d - 1) + ")"; if (k == 5) return "sum(" + nset(d - 1) + "/@v)";
        if (k == 6) return "string-length(" + str(d - 1) + ")";
        if (k == 7) { static const std::vector<std::string> ops = { " + ", " - ", " * ", " div ", " mod " }; return "(" + num(d - 1) + g.pick(ops) + num(d - 1) + ")"; }
        if (k == 8) return "-(" + num(d - 1) + ")";      // "--7" is XPath, but the library's parser takes one unary minus only
        if (k == 9) { static const std::vector<std::string> fs = { "floor", "ceiling", "round" }; return g.pick(fs) + "(" + num(d - 1) + ")"; }
        if (k == 10) return "number(" + any(d - 1) + ")";
        return "last()";
    }
    std::string strLit() { static const std::vector<std::string> lits = { "''", "'a'", "'k1'", "'n3'", "'abc def'", "' '", "'1'", "'-12.5'", "'true'", "'&#xE9;&#x20AC;'", "'&lt;&amp;'", "&quot;it's&quot;" }; return g.pick(lits); }
    // bmpOnly: a string that cannot hold a supplementary character (substring() counts UTF-16 units and would cut one in half: a lone
    // surrogate in the result tree, which no serializer can write)
    std::string str(int d, bool bmpOnly = false) {
        if (bmpOnly && !wild) { unsigned k = (unsigned)g.below(d > 0 ? 6 : 2);
            if (k < 2) return strLit(); if (k == 2) { static const std::vector<std::string> fs = { "name", "local-name" }; return g.pick(fs) + "(" + (g.chance(1, 3) ? std::string() : nset(d - 1)) + ")"; }
            if (k == 3) return "format-number(" + num(d - 1) + ", '#,##0.0#')"; if (k == 4) return "string(" + num(d - 1) + ")"; return "concat(" + str(d - 1, true) + ", " + str(d - 1, true) + ")"; }
        unsigned k = (unsigned)g.below(d > 0 ? 14 : 3);
        if (k < 2) return strLit(); if (k == 2) return "string(" + path(0) + ")";
        if (k == 3) return "string(" + any(d - 1) + ")";
        if (k == 4) { int n = (int)g.range(2, 4); std::string s = "concat("; for (int i = 0; i < n; ++i) { if (i) s += ", "; s += str(d - 1); } return s + ")"; }
        if (k == 5) return "substring(" + str(d - 1, true) + ", " + num(d - 1) + (g.chance(1, 2) ? ", " + num(d - 1) : std::string()) + ")";
        if (k == 6) return std::string(g.chance(1, 2) ? "substring-before(" : "substring-after(") + str(d - 1) + ", " + str(d - 1) + ")";
        if (k == 7) return "translate(" + str(d - 1) + ", " + strLit() + ", " + strLit() + ")";
        if (k == 8) return "normalize-space(" + (g.chance(1, 4) ? std::string() : str(d - 1)) + ")";
        if (k == 9) { static const std::vector<std::string> fs = { "name", "local-name", "namespace-uri" }; return g.pick(fs) + "(" + (g.chance(1, 3) ? std::string() : nset(d - 1)) + ")"; }
        if (k == 10) return "format-number(" + num(d - 1) + ", '#,##0.0#')";
        if (k == 11) return "string(" + boolean(d - 1) + ")";
        if (k == 12) return "string(" + num(d - 1) + ")";
        return "system-property('xsl:version')";
    }
    std::string boolean(int d) {
        unsigned k = (unsigned)g.below(d > 0 ? 12 : 3);
        static const std::vector<std::string> rel = { " = ", " != ", " &lt; ", " &lt;= ", " &gt; ", " &gt;= " };
        if (k == 0) return g.chance(1, 2) ? "true()" : "false()"; if (k == 1) return path(0); if (k == 2) return "@k = 'k1'";
        if (k == 3) return num(d - 1) + g.pick(rel) + num(d - 1);
        if (k == 4) return str(d - 1) + (g.chance(1, 2) ? " = " : " != ") + str(d - 1);
        if (k == 5) return nset(d - 1) + g.pick(rel) + any(d - 1);
        if (k == 6) return "(" + boolean(d - 1) + (g.chance(1, 2) ? " and " : " or ") + boolean(d - 1) + ")";
        if (k == 7) return "not(" + boolean(d - 1) + ")";
        if (k == 8) return std::string(g.chance(1, 2) ? "contains(" : "starts-with(") + str(d - 1) + ", " + str(d - 1) + ")";
        if (k == 9) return g.chance(1, 2) ? "lang('en')" : "lang('fr')";
        if (k == 10) return "boolean(" + any(d - 1) + ")";
        return nset(d - 1);
    }
    std::string any(int d) { if (d < 0) d = 0; switch (g.below(4)) { case 0: return nset(d); case 1: return num(d); case 2: return str(d); default: return boolean(d); } }
    // wild extras: wrong arity, unknown functions, variable references, stray tokens
    std::string wildExpr(int d) {
        unsigned k = (unsigned)g.below(12);
        if (k == 0) return "concat(" + str(d) + ")"; if (k == 1) return "substring(" + str(d) + ")"; if (k == 2) return "nosuchfn(" + any(d) + ")"; if (k == 3) return "$nosuch + " + num(d);
        if (k == 4) return "count(" + num(d) + ")"; if (k == 5) return "sum(" + str(d) + ")"; if (k == 6) return nset(d) + "/" + num(d); if (k == 7) return "key('nokey', " + str(d) + ")";
        if (k == 8) return "document(" + str(d) + ")//x"; if (k == 9) return "format-number(" + num(d) + ", " + str(d) + ", 'nodf')"; if (k == 10) return "round(" + num(d) + ", 2)";
        return "(" + any(d) + ")[" + any(d) + "][" + any(d) + "]";
    }
    // returns (expression, kind) with kind N | D | S | B
    std::pair<std::string, char> make(int depth) {
        heavy = 3;
        if (wild && g.chance(1, 3)) return { wildExpr(depth), 'W' };
        switch (g.below(4)) { case 0: return { nset(depth), 'N' }; case 1: return { num(depth), 'D' }; case 2: return { str(depth), 'S' }; default: return { boolean(depth), 'B' }; }
    }
};
// an expression as it is written in an API string (entities of the XML attribute form resolved)
inline std::string exprPlain(std::string e) { for (auto& r : std::vector<std::pair<std::string, std::string>>{ { "&lt;", "<" }, { "&gt;", ">" }, { "&quot;", "\"" }, { "&#xE9;", "\xC3\xA9" }, { "&#x20AC;", "\xE2\x82\xAC" }, { "&amp;", "&" } }) { size_t q; while ((q = e.find(r.first)) != std::string::npos) e.replace(q, r.first.size(), r.second); } return e; }

// ---------------------------------------------------------------------------------------------
// Stylesheets
// ---------------------------------------------------------------------------------------------
struct SSCfg {
    std::set<std::string> on;        // enabled feature ids (swarm)
    std::string encoding = "UTF-8";
    std::string method = "xml";
    bool cdataElems = false;
    std::string abortKind;           // "", message, key, extfn, encoding, badname
    std::string abortNode;           // node id at which the abort fires
    int abortPlace = 0;              // 0 in the template | 1 three iterations deep | 2 inside a variable body after some text
    std::string order = "doc";       // visiting order of //*: doc | rk | rev
    bool useImport = false, useInclude = false;
    bool omitDecl = false;
    bool useParam = false;           // declares top-level params P1 (string) P2 (number)
    bool stripSpace = false;
    bool docFn = false;              // document('aux.xml')
    bool selfDoc = false;            // document('doc.xml') naming the source document itself (identity-sensitive; only where every form registers the source under that URL)
    int dfVariant = 0;               // which symbol set the named xsl:decimal-format uses (0..2)
    std::string sysIdStyle;          // "" | "noslash": a stylesheet that includes through a ../ href (used with an unusual base URI)
    bool dupExtPrefix = false;       // extension-element-prefixes lists two prefixes bound to one namespace URI
    std::string sortLang = "de", sortCase;   // "sortlang" feature: lang and case-order ("" = absent)
    int indentAmount = -1;           // >= 0: indent="yes"/"no" with xalan:indent-amount (where outputs are compared byte for byte only)
    std::string stripNames;          // "" = strip-space elements="*"; otherwise the names to strip (with stripSpace)
    int keyVariant = 0;              // "key-prefixed" / "key-variant": which namespace the key prefixes are bound to and what the keys use (0..2)
    std::string rootName = "out";    // with method "" (no method attribute) and rootName "html" the processor switches to the HTML serializer after the first element
};

struct GenSS {
    std::string xsl;
    std::map<std::string, std::string> resources;   // href -> bytes (imports, includes, document() targets)
    std::vector<std::string> features;
    std::vector<std::pair<std::string, std::string>> expect;   // (feature, canonical text that the observation record of that feature must contain)
};

// all feature ids the generator knows
inline const std::vector<std::string>& allFeatures() {
    static const std::vector<std::string> f = {
        "name", "counts", "strval", "axes", "revaxes", "pos", "key", "keyids", "id", "num-single", "num-multi", "num-any", "num-nocount",
        "fmtnum", "fmtnum-df", "arith", "strfn", "copyof", "copy", "rtf", "nodeset", "calltmpl", "choose", "elemattr", "attrset",
        "lre", "message", "modes", "sort2", "comment-pi", "exslt-set", "exslt-math", "exslt-str", "genid", "lang", "sysprop", "param", "ifbool",
        "union", "preds", "valnum", "apply-imports", "text-nodes", "ns-axis", "doctype-node", "attr-nodes", "number-value", "bigfmt", "xalan-ext", "docfn", "avt-ns", "extfn", "paramuse", "gate", "num-gate", "sortlang", "num-value", "lazyvar", "manyrtf", "deeprec", "padsupp", "top-nodes", "doe", "sort-gate", "bignum-alpha",
        "num-punct", "num-exotic", "ext-evaluate", "rtf-key", "key-prefixed", "key-variant",
        "nsalias", "withparam", "fmtnum-pat", "doc2", "unparsed-entity", "nsfix", "numconv", "keynodeset", "randexpr", "manydf", "axes-matrix", "num-groupsep", "sort-manylang", "attr-replace", "deep-rtf", "many-nodesets", "copy-ns-attr", "attr-expanded", "excl-attr", "sort-avt"
    };
    return f;
}

struct SSGen {
    Rng& g; const SSCfg& c; const GenDoc& d; GenSS out;
    std::string top, perNode, rootBody, extraTemplates, extraTop2;
    SSGen(Rng& g_, const SSCfg& c_, const GenDoc& d_) : g(g_), c(c_), d(d_) {}
    bool on(const char* f) { if (c.on.count(f)) { out.features.push_back(f); return true; } return false; }
    static std::string o(const std::string& f, const std::string& body) { return "<o f=\"" + f + "\" n=\"{@id}\">" + body + "</o>"; }
    static std::string vo(const std::string& sel) { return "<xsl:value-of select=\"" + sel + "\"/>"; }
    std::string someName() { return d.names.empty() ? "a" : d.names[g.below(d.names.size())]; }

    GenSS make() {
        std::string nodeName1 = someName(), nodeName2 = someName();
        // ---- per-element observations ----
        if (on("name")) perNode += o("name", vo("name()") + "|" + vo("local-name()") + "|" + vo("namespace-uri()"));
        if (on("counts")) perNode += o("counts", vo("count(*)") + "," + vo("count(node())") + "," + vo("count(text())") + "," + vo("count(@*)") + "," + vo("count(comment())") + "," + vo("count(processing-instruction())"));
        if (on("strval")) perNode += o("strval", vo("string-length(.)") + ":" + vo("normalize-space(text()[1])") + ":" + vo("string-length(normalize-space(.))"));
        if (on("axes")) perNode += o("axes", vo("count(descendant::*)") + "," + vo("count(following-sibling::*)") + "," + vo("count(following::*)") + "," + vo("count(descendant-or-self::node())"));
        if (on("revaxes")) perNode += o("revaxes", vo("count(ancestor::*)") + "," + vo("count(preceding-sibling::*)") + "," + vo("count(preceding::*)") + "," + vo("ancestor::*[1]/@id") + "," + vo("preceding::*[2]/@id") + "," + vo("preceding-sibling::*[last()]/@id"));
        if (on("pos")) perNode += "<o f=\"pos\" n=\"{@id}\"><xsl:for-each select=\"*\"><xsl:sort select=\"@rk\" data-type=\"number\"/><xsl:value-of select=\"concat(position(),'/',last(),'=',@id,' ')\"/></xsl:for-each></o>";
        if (on("key")) { top += "<xsl:key name=\"kk\" match=\"*\" use=\"@k\"/>"; perNode += o("key", vo("count(key('kk', @k))") + ":" + vo("key('kk', @k)[1]/@id") + ":" + vo("key('kk', @k)[last()]/@id")); }
        if (on("keyids")) { top += "<xsl:key name=\"kv\" match=\"" + nodeName1 + "|" + nodeName2 + "\" use=\"@v\"/><xsl:key name=\"kv\" match=\"*[@ref]\" use=\"@ref\"/>"; perNode += "<o f=\"keyids\" n=\"{@id}\"><xsl:for-each select=\"key('kv', @v) | key('kv', @id)\"><xsl:value-of select=\"@id\"/><xsl:text> </xsl:text></xsl:for-each></o>"; }
        if (on("id")) perNode += o("id", vo("count(id(@ref))") + ":" + vo("id(@ref)/@id") + ":" + vo("count(id('n1 n2 n3 zz'))"));
        if (on("num-single")) perNode += o("num-single", "<xsl:number level=\"single\" count=\"" + nodeName1 + "|" + nodeName2 + "\"/>|<xsl:number level=\"single\" count=\"*\" format=\"a\"/>");
        if (on("num-multi")) perNode += o("num-multi", "<xsl:number level=\"multiple\" count=\"*\" format=\"1.1\"/>|<xsl:number level=\"multiple\" count=\"" + nodeName1 + "\" from=\"" + nodeName2 + "\" format=\"i.A\"/>");
        if (on("num-any")) perNode += o("num-any", "<xsl:number level=\"any\" count=\"*\"/>|<xsl:number level=\"any\" count=\"" + nodeName1 + "\" format=\"01\"/>");
        if (on("num-nocount")) perNode += o("num-nocount", "<xsl:number/>|<xsl:number level=\"any\"/>|<xsl:number level=\"multiple\" format=\"1-1\"/>");
        if (on("number-value")) perNode += o("number-value", "<xsl:number value=\"count(preceding::*) + 1\" format=\"I\"/>|<xsl:number value=\"position() * 1234\" grouping-separator=\",\" grouping-size=\"3\"/>");
        if (on("fmtnum")) perNode += o("fmtnum", vo("format-number(@v * 1234.5678, '#,##0.00')") + "|" + vo("format-number(@v div 7, '0.###')") + "|" + vo("format-number(@v, '00%')"));
        if (on("fmtnum-df")) {
            // three symbol sets: a formatter cached for one stylesheet must not serve another one with different symbols
            static const char* const dec[] = { ",", "!", "." }; static const char* const grp[] = { ".", "'", "," }; static const char* const nan[] = { "nan!", "keine Zahl", "NaN" }; static const char* const mns[] = { "~", "-", "_" };
            int v = c.dfVariant % 3; std::string D = dec[v], G = grp[v];
            top += std::string("<xsl:decimal-format name=\"df\" decimal-separator=\"") + D + "\" grouping-separator=\"" + (G == "'" ? "&apos;" : G) + "\" NaN=\"" + nan[v] + "\" minus-sign=\"" + mns[v] + "\"/>";
            std::string pat = "#" + G + "##0" + D + "00";
            perNode += o("fmtnum-df", vo("format-number(@v * -1234.5 - 1000000, &quot;" + pat + "&quot;, 'df')") + "|" + vo("format-number(number('x'), '#', 'df')")); }
        if (on("bigfmt")) perNode += o("bigfmt", vo("@v * 100000000000000000000000000000000000000000000000000000000000000000000000000000000000000000000000") + "|" + vo("number(@v) div 100000000000000000000000000000000000000000000000000000000000000000000000000000000000000000000000 div 100000000000000000000000000000000000000000000000000000000000000000000000000000000000000000000000") + "|" + vo("format-number(@v * 10000000000000000000000000000000000000000, '#,###')") + "|" + vo("0.0000000000000000000000000000000000000000000000000000000000001 * @v"));
        if (on("arith")) perNode += o("arith", vo("sum(*/@v)") + "," + vo("@v mod 7") + "," + vo("floor(@v div 3)") + "," + vo("ceiling(@v div 3)") + "," + vo("round(@v div 2)") + "," + vo("@v div 0") + "," + vo("-(@v) * 0") + "," + vo("(@v + 1) * 2 - 3 div 4"));
        if (on("strfn")) perNode += o("strfn", vo("substring(@id, 2)") + "," + vo("translate(name(), 'abc', 'ABC')") + "," + vo("concat(@k, '-', @v)") + "," + vo("contains(., 'a')") + "," + vo("starts-with(@id, 'n1')") + "," + vo("substring-before(concat(@k,':',@v), ':')") + "," + vo("substring-after(concat(@k,':',@v), ':')") + "," + vo("string-length(normalize-space(.))") + "," + vo("substring('12345', 1.5, 2.6)") + "," + vo("substring('12345', 0 div 0, 3)"));
        if (on("copyof")) perNode += "<xsl:if test=\"count(descendant::*) &lt; 4\"><o f=\"copyof\" n=\"{@id}\"><xsl:copy-of select=\".\"/></o></xsl:if>";
        if (on("copy")) perNode += "<o f=\"copy\" n=\"{@id}\"><xsl:copy><xsl:copy-of select=\"@k|@v\"/><xsl:value-of select=\"count(*)\"/></xsl:copy></o>";
        if (on("rtf")) perNode += "<xsl:variable name=\"rtf\"><r><xsl:value-of select=\"@id\"/></r><s v=\"{@v}\"/>txt</xsl:variable>" + o("rtf", vo("$rtf") + "|" + vo("string-length($rtf)") + "|<xsl:copy-of select=\"$rtf\"/>");
        if (on("nodeset")) perNode += "<xsl:variable name=\"rtf2\"><r><xsl:value-of select=\"@id\"/></r><r>two</r></xsl:variable>" + o("nodeset", vo("count(xalan:nodeset($rtf2)/r)") + "|" + vo("exsl:node-set($rtf2)/r[2]") + "|" + vo("count(exsl:node-set($rtf2)//text())"));
        if (on("calltmpl")) { extraTemplates += "<xsl:template name=\"sumdown\"><xsl:param name=\"n\" select=\"0\"/><xsl:param name=\"acc\" select=\"0\"/><xsl:choose><xsl:when test=\"$n &gt; 0\"><xsl:call-template name=\"sumdown\"><xsl:with-param name=\"n\" select=\"$n - 1\"/><xsl:with-param name=\"acc\" select=\"$acc + $n\"/></xsl:call-template></xsl:when><xsl:otherwise><xsl:value-of select=\"$acc\"/></xsl:otherwise></xsl:choose></xsl:template>";
            perNode += "<o f=\"calltmpl\" n=\"{@id}\"><xsl:call-template name=\"sumdown\"><xsl:with-param name=\"n\" select=\"count(*) + 2\"/></xsl:call-template></o>"; }
        if (on("choose")) perNode += "<o f=\"choose\" n=\"{@id}\"><xsl:choose><xsl:when test=\"@v &gt; 20\">big</xsl:when><xsl:when test=\"@v &lt; 0\">neg</xsl:when><xsl:when test=\"not(@v)\">none</xsl:when><xsl:otherwise>small</xsl:otherwise></xsl:choose></o>";
        if (on("elemattr")) perNode += "<o f=\"elemattr\" n=\"{@id}\"><xsl:element name=\"{concat('g', count(*))}\" namespace=\"urn:x-gen-{@k}\"><xsl:attribute name=\"q:at\" namespace=\"urn:x-q\"><xsl:value-of select=\"@v\"/></xsl:attribute><xsl:attribute name=\"plain\">p<xsl:value-of select=\"@k\"/></xsl:attribute></xsl:element></o>";
        if (on("attrset")) { top += "<xsl:attribute-set name=\"as1\"><xsl:attribute name=\"s1\">one</xsl:attribute><xsl:attribute name=\"s2\"><xsl:value-of select=\"@id\"/></xsl:attribute></xsl:attribute-set><xsl:attribute-set name=\"as2\" use-attribute-sets=\"as1\"><xsl:attribute name=\"s1\">over</xsl:attribute></xsl:attribute-set>";
            perNode += "<o f=\"attrset\" n=\"{@id}\"><w xsl:use-attribute-sets=\"as2\" s3=\"lit\"/><xsl:element name=\"w2\" use-attribute-sets=\"as1\"/><xsl:element name=\"{concat(substring('1', 1, number(@v = 3 or @k = 'k2')), 'w3')}\" use-attribute-sets=\"as2\"><xsl:attribute name=\"own\">o</xsl:attribute>in<xsl:element name=\"w4\" use-attribute-sets=\"as1\"/></xsl:element><xsl:element name=\"w6\" use-attribute-sets=\"as1\"><xsl:for-each select=\"@k | text()[1] | comment()[1] | processing-instruction()[1]\"><xsl:copy use-attribute-sets=\"as2\"/></xsl:for-each>tail</xsl:element></o>"; }   /* w6: xsl:copy with attribute sets on nodes that are not elements (the sets do not apply), inside an instruction that uses them */
        if (on("lre")) perNode += "<o f=\"lre\" n=\"{@id}\"><p1:lit a=\"{@k}-{@v}\" b=\"{{x}}\" xmlns:zz=\"urn:x-zz\"><zz:in/></p1:lit></o>";
        if (on("avt-ns")) perNode += "<o f=\"avt-ns\" n=\"{@id}\"><xsl:element name=\"px:e\" namespace=\"{concat('urn:x-dyn-', namespace-uri())}\"/><xsl:element name=\"{name()}\"/></o>";
        if (on("message")) perNode += "<xsl:if test=\"@v = 7\"><xsl:message>note <xsl:value-of select=\"@id\"/></xsl:message></xsl:if>";
        if (on("sort2")) perNode += "<o f=\"sort2\" n=\"{@id}\"><xsl:for-each select=\"*\"><xsl:sort select=\"@k\" order=\"descending\"/><xsl:sort select=\"@v\" data-type=\"number\"/><xsl:value-of select=\"@id\"/>,</xsl:for-each>|<xsl:for-each select=\"*\"><xsl:sort select=\"name()\" case-order=\"upper-first\" lang=\"en\"/><xsl:value-of select=\"@id\"/>,</xsl:for-each></o>";
        // processing-instruction data and comment text longer than the pooled string's first capacity (1024) that need the "?>" / "--" fix-up
        if (on("comment-pi")) perNode += "<xsl:if test=\"not(ancestor::*)\"><o f=\"comment-pi-long\" n=\"{@id}\"><xsl:processing-instruction name=\"big\">" + std::string(1100, 'x') + "?><xsl:value-of select=\"@id\"/>?>?>tail</xsl:processing-instruction><xsl:comment>" + std::string(1100, 'y') + "--<xsl:value-of select=\"@id\"/>---</xsl:comment><xsl:processing-instruction name=\"small\">a?>b</xsl:processing-instruction></o></xsl:if>";
        if (on("comment-pi")) perNode += "<o f=\"comment-pi\" n=\"{@id}\"><xsl:comment>c <xsl:value-of select=\"@id\"/></xsl:comment><xsl:processing-instruction name=\"tgt\">d <xsl:value-of select=\"@k\"/></xsl:processing-instruction><m>pre<xsl:value-of select=\"@k\"/><xsl:comment>in</xsl:comment>mid<xsl:processing-instruction name=\"tgt2\">e</xsl:processing-instruction>post<i/>tail<xsl:comment/><xsl:comment>a---b----<xsl:value-of select=\"@k\"/>-</xsl:comment><xsl:comment>--</xsl:comment><xsl:comment>-<xsl:value-of select=\"substring('-----', 1, count(*))\"/></xsl:comment></m></o>";
        if (on("exslt-set")) perNode += o("exslt-set", vo("count(set:distinct(*/@k))") + "," + vo("count(set:difference(*, *[@v]))") + "," + vo("count(set:intersection(*, *[@k]))") + "," + vo("set:has-same-node(*, *[1])") + "," + vo("count(set:leading(*, *[3]))") + "," + vo("count(set:trailing(*, *[2]))"));
        if (on("exslt-math")) perNode += o("exslt-math", vo("math:max(*/@v)") + "," + vo("math:min(*/@v)") + "," + vo("count(math:highest(*/@v))") + "," + vo("math:abs(@v)") + "," + vo("math:sqrt(16)") + "," + vo("math:power(2, 10)"));
        if (on("exslt-str")) perNode += o("exslt-str", vo("str:padding(5, 'ab')") + "," + vo("str:align(@id, '--------', 'right')") + "," + vo("str:concat(*/@k)") + "," + vo("str:encode-uri(concat(@k, ' /x'), false())"));
        if (on("xalan-ext")) perNode += o("xalan-ext", vo("count(xalan:distinct(*/@k))") + "," + vo("count(xalan:difference(*, *[1]))") + "," + vo("count(xalan:intersection(*, *[@v]))") + "," + vo("xalan:hasSameNodes(*, *)") + "," + vo("count(xalan:evaluate('*'))"));
        if (on("genid")) perNode += o("genid", vo("generate-id(.) = generate-id(//*[@id = current()/@id])") + "," + vo("generate-id(.) = generate-id(..)") + "," + vo("string-length(generate-id(.)) &gt; 0"));
        if (on("lang")) perNode += o("lang", vo("lang('en')") + "," + vo("lang('fr')") + "," + vo("ancestor-or-self::*[@xml:lang][1]/@xml:lang"));
        if (on("sysprop")) perNode += "<xsl:if test=\"not(preceding::*) and not(ancestor::*)\">" + o("sysprop", vo("system-property('xsl:version')") + "," + vo("function-available('exsl:node-set')") + "," + vo("function-available('nofn:x')") + "," + vo("element-available('xsl:if')") + "," + vo("element-available('xsl:nope')")) + "</xsl:if>";
        if (on("param")) { perNode += "<xsl:if test=\"not(ancestor::*)\">" + o("param", vo("$P1") + "|" + vo("$P2 + 1") + "|" + vo("string-length($P1)")) + "</xsl:if>"; }
        if (on("extfn")) perNode += "<xsl:if test=\"function-available('ext:sq')\">" + o("extfn", vo("ext:sq(@v)") + "," + vo("ext:sq(count(*))")) + "</xsl:if>";
        if (on("paramuse")) rootBody += "<o f=\"param-node\" n=\"/\">" + vo("count($N)") + "," + vo("name($N)") + "," + vo("string-length($N)") + "," + vo("translate(normalize-space($N), ' ', '_')") + "," + vo("count($N//text())") + "</o>";
        if (on("paramuse")) perNode += o("paramuse", vo("concat($P1, '/', @k)") + "|" + vo("$P2 * 2") + "|" + vo("boolean($P1)") + "|" + vo("1 div $P2"));
        // a lazily evaluated global variable whose body aborts the transformation when the parameter P1 is 'abort'
        if (on("gate")) perNode += "<xsl:if test=\"count(preceding::*) mod 3 = 1\">" + o("gate", vo("$GATE")) + "</xsl:if>";
        if (on("num-gate")) perNode += o("num-gate", "<xsl:number level=\"any\" count=\"*[not(@zz) or $GATE = 'x']\"/>|<xsl:number level=\"single\" count=\"*[@k or $GATE = 'x']\"/>");
        if (on("lazyvar")) perNode += "<xsl:if test=\"@v &gt; 30\">" + o("lazyvar", vo("$LAZY1") + "," + vo("count($LAZY2)")) + "</xsl:if>";
        if (on("sortlang")) perNode += "<o f=\"sortlang\" n=\"{@id}\"><xsl:for-each select=\"*\"><xsl:sort select=\"substring('aAbBcC', (count(@*) + string-length(@rk)) mod 6 + 1, 1)\" lang=\"" + c.sortLang + "\"" + (c.sortCase.empty() ? std::string() : " case-order=\"" + c.sortCase + "\"") + "/><xsl:value-of select=\"concat(substring('aAbBcC', (count(@*) + string-length(@rk)) mod 6 + 1, 1), @id, ' ')\"/></xsl:for-each></o>";
        // the order of the second sort key is an attribute value template: with P1 = 'abort' it is not a legal order, and the instruction fails while its keys are being set up
        if (on("sort-avt")) { top += "<xsl:variable name=\"SORD\"><xsl:choose><xsl:when test=\"$P1 = 'abort'\">sideways</xsl:when><xsl:when test=\"$P1 = 'badkey'\">descending</xsl:when><xsl:otherwise>ascending</xsl:otherwise></xsl:choose></xsl:variable>";
            perNode += "<o f=\"sort-avt\" n=\"{@id}\"><xsl:for-each select=\"*\"><xsl:sort select=\"@k\"/><xsl:sort select=\"@v\" data-type=\"number\" order=\"{$SORD}\"/><xsl:value-of select=\"@id\"/>,</xsl:for-each></o>"; }
        if (on("sort-gate")) perNode += "<o f=\"sort-gate\" n=\"{@id}\"><xsl:for-each select=\"*\"><xsl:sort select=\"@v + number(boolean(self::*[@id != $P1] or key('nosuchkey', 1)))\" data-type=\"number\"/><xsl:sort select=\"concat(@k, string(boolean(self::*[@id != $P1] or key('nosuchkey', 1))))\"/><xsl:value-of select=\"@id\"/>,</xsl:for-each></o>";
        // numbers in the thousands for the alphabetic and roman tokens
        if (on("bignum-alpha")) perNode += o("bignum-alpha", "<xsl:number value=\"count(preceding::*) * 97 + 650\" format=\"A\"/>|<xsl:number value=\"(count(preceding::*) + 1) * 676\" format=\"a\"/>|<xsl:number value=\"count(preceding::*) * 13 + 3990\" format=\"I\"/>|<xsl:number value=\"count(preceding::*) * 1000 + 999\" format=\"1\" grouping-separator=\",\" grouping-size=\"3\"/>");
        if (on("num-value")) perNode += o("num-value", "<xsl:number value=\"count(preceding::*) div 2\"/>|<xsl:number value=\"(count(preceding::*) + 1) div 4\" format=\"a\"/>|<xsl:number value=\"count(*) + 0.5\" format=\"I\"/>|<xsl:number value=\"@v * 1.5\" format=\"01\"/>");
        // number formats without any alphanumeric token, and tokens of other scripts
        if (on("num-punct")) perNode += o("num-punct", "<xsl:number value=\"count(preceding::*) + 1\" format=\".\"/>|<xsl:number value=\"count(*) + 1\" format=\"-\"/>|<xsl:number level=\"multiple\" count=\"*\" format=\") \"/>|<xsl:number value=\"position()\" format=\"#\"/>|<xsl:number level=\"multiple\" count=\"*\" format=\"(1)\"/>|<xsl:number level=\"multiple\" count=\"*\" format=\"1. \"/>|<xsl:number value=\"count(*) + 1\" format=\"\"/>|<xsl:number level=\"multiple\" count=\"*\" format=\"{substring('.-#:', 1 + count(*) mod 4, 1)}\"/>|<xsl:number level=\"multiple\" count=\"*\" format=\"--1--a--\"/>");
        if (on("num-exotic")) perNode += o("num-exotic", "<xsl:number value=\"count(preceding::*) + 1\" format=\"&#x3B1;\" letter-value=\"alphabetic\"/>|<xsl:number value=\"count(preceding::*) * 5 + 1\" format=\"&#x3B1;\" letter-value=\"traditional\" lang=\"el\"/>|<xsl:number value=\"count(preceding::*) * 7 + 1\" format=\"&#x661;\"/>|<xsl:number value=\"count(preceding::*) + 1\" format=\"&#x0967;\"/>|<xsl:number level=\"multiple\" count=\"*\" format=\"&#x3B1;.1\" letter-value=\"{substring('alphabetic traditional', 1 + 11 * (count(*) mod 2), 11 - (count(*) + 1) mod 2)}\"/>|<xsl:number value=\"count(preceding::*) * 1234 + 1\" format=\"&#x3B1;\" letter-value=\"traditional\"/>");
        // dynamic evaluation: the string is itself a literal, a number, a path or computed
        if (on("ext-evaluate")) perNode += "<xsl:variable name=\"ev1\" select=\"xalan:evaluate(&quot;'abc'&quot;)\"/><xsl:variable name=\"ev2\" select=\"dyn:evaluate('12345.5')\"/><xsl:variable name=\"ev3\" select=\"dyn:evaluate(&quot;('x')&quot;)\"/><xsl:variable name=\"ev4\" select=\"xalan:evaluate(concat('*[', 1, ']/@id'))\"/>"
            + o("ext-evaluate", vo("count(dyn:evaluate('*'))") + "," + vo("concat($ev1, '-', $ev3)") + "," + vo("$ev2 + 1") + "," + vo("$ev4") + "," + vo("xalan:evaluate('count(*) + 1')") + "," + vo("string-length(dyn:evaluate(&quot;concat('x','y')&quot;))") + "," + vo("exsl:object-type($ev1)") + "/" + vo("exsl:object-type($ev4)"));
        // key() over the nodes of a result tree fragment: a key table built for a temporary document
        if (on("rtf-key")) { top += "<xsl:key name=\"rk\" match=\"r\" use=\"@k\"/>";
            perNode += "<xsl:if test=\"count(preceding::*) mod 3 = 0\"><xsl:variable name=\"rtf3\"><r k=\"{@k}\">a</r><r k=\"k1\">b</r><r k=\"{@k}\">c</r></xsl:variable><o f=\"rtf-key\" n=\"{@id}\"><xsl:for-each select=\"exsl:node-set($rtf3)/r[1]\"><xsl:value-of select=\"count(key('rk', @k))\"/>,<xsl:value-of select=\"key('rk', 'k1')\"/>,<xsl:value-of select=\"count(key('rk', 'none'))\"/></xsl:for-each></o></xsl:if>"; }
        // key names with prefixes whose bindings differ from stylesheet to stylesheet; an unprefixed key whose use expression differs too
        if (on("key-prefixed")) { top += std::string("<xsl:key name=\"kp:k\" match=\"*\" use=\"") + (c.keyVariant % 3 == 2 ? "@v" : "@k") + "\"/><xsl:key name=\"kq:k\" match=\"*\" use=\"string-length(@rk)\"/>";
            perNode += o("key-prefixed", vo("count(key('kp:k', @k))") + ":" + vo("key('kp:k', @k)[1]/@id") + ":" + vo("count(key('kq:k', 5))") + ":" + vo("count(key('kp:k', @v))")); }
        if (on("key-variant")) { static const char* const use[] = { "@k", "@v", "concat(@k, @v)" }; top += std::string("<xsl:key name=\"kvv\" match=\"*\" use=\"") + use[c.keyVariant % 3] + "\"/>";
            perNode += o("key-variant", vo("count(key('kvv', @k))") + ":" + vo("count(key('kvv', @v))") + ":" + vo("key('kvv', concat(@k, @v))[last()]/@id")); }
        // literal result elements in an aliased namespace
        if (on("nsalias")) { top += "<xsl:namespace-alias stylesheet-prefix=\"ax\" result-prefix=\"ar\"/>"; perNode += "<xsl:if test=\"count(*) = 1\"><o f=\"nsalias\" n=\"{@id}\"><ax:gen ax:at=\"{@k}\" plain=\"1\"><ax:inner/><xsl:value-of select=\"name()\"/></ax:gen></o></xsl:if>"; }
        // parameters passed through apply-templates and call-template, defaults, shadowing
        /* with the gate variable declared, a parameter after the result tree fragment refers to it: an abort lands between two xsl:with-param of one call */
        if (on("withparam")) { extraTemplates += "<xsl:template match=\"*\" mode=\"wp\"><xsl:param name=\"a\" select=\"'da'\"/><xsl:param name=\"b\"><dflt/></xsl:param><xsl:param name=\"depth\" select=\"0\"/><xsl:value-of select=\"concat('[', $a, '/', count(exsl:node-set($b)/*), '/', $depth, ']')\"/><xsl:if test=\"$depth &lt; 3\"><xsl:apply-templates select=\"*[1]\" mode=\"wp\"><xsl:with-param name=\"a\" select=\"concat($a, @k)\"/><xsl:with-param name=\"depth\" select=\"$depth + 1\"/><xsl:with-param name=\"unused\" select=\"//*\"/></xsl:apply-templates></xsl:if></xsl:template>";
            perNode += "<o f=\"withparam\" n=\"{@id}\"><xsl:apply-templates select=\".\" mode=\"wp\"><xsl:with-param name=\"b\"><x/><y/></xsl:with-param>" + std::string((c.on.count("gate") || c.on.count("num-gate")) ? "<xsl:with-param name=\"g\" select=\"$GATE\"/>" : "") + "</xsl:apply-templates>|<xsl:apply-templates select=\"*[2]\" mode=\"wp\"/></o>"; }
        // format-number patterns: negative sub-pattern, percent, per-mille, quoted literals, many digits
        if (on("fmtnum-pat")) perNode += o("fmtnum-pat", vo("format-number(@v - 20.5, '#,##0.0#;(#,##0.0#)')") + "|" + vo("format-number(@v div 40, '#0.0%')") + "|" + vo("format-number(@v div 40, '#0.0&#x2030;')") + "|" + vo("format-number(@v, &quot;000'x'&quot;)") + "|" + vo("format-number(@v * 1234567.891, '###,###,##0.000000')") + "|" + vo("format-number(@v, '#')") + "|" + vo("format-number(-0.4, '0')") + "|" + vo("format-number(1 div 0, '0')") + "|" + vo("format-number(@v, '0.0;-0.0')"));
        // document() with a base node, with a node-set, and the stylesheet itself
        if (on("doc2") && c.docFn) perNode += "<xsl:if test=\"count(preceding::*) &lt; 2\">" + o("doc2", vo("count(document('aux.xml', /)//x)") + "," + vo("count(document(*/@nosuch)//x)") + "," + vo("count(document('')/xsl:stylesheet/xsl:template)") + "," + vo("count(document('aux.xml')//x | document('aux.xml')//x)") + "," + vo("document('aux.xml')//x[@id='x2']") + "," + vo("count(document(document('aux.xml')/aux/y/@none))")) + "</xsl:if>";
        if (on("unparsed-entity")) perNode += "<xsl:if test=\"not(ancestor::*)\">" + o("unparsed-entity", vo("contains(unparsed-entity-uri('pic'), 'pic.gif')") + "," + vo("string-length(unparsed-entity-uri('nosuch'))")) + "</xsl:if>";
        // namespace fix-up: prefixes that collide, attributes that need a generated prefix
        if (on("nsfix")) perNode += "<xsl:if test=\"count(*) &lt; 2\"><o f=\"nsfix\" n=\"{@id}\"><xsl:element name=\"p1:z\" namespace=\"urn:x-other\"><xsl:attribute name=\"p1:a\" namespace=\"urn:x-third\">1</xsl:attribute><xsl:attribute name=\"b\" namespace=\"urn:x-fourth\">2</xsl:attribute><p1:inner xmlns:p1=\"urn:x-fifth\"/><xsl:element name=\"z\" namespace=\"\"/></xsl:element><xsl:copy><xsl:attribute name=\"p2:c\" namespace=\"urn:x-ns1\">3</xsl:attribute></xsl:copy></o></xsl:if>";
        // conversions at the edges of the number type
        if (on("numconv")) perNode += o("numconv", vo("string(0 div 0)") + "," + vo("string(-1 div 0)") + "," + vo("string(-0 * 1)") + "," + vo("string(0.1 + 0.2)") + "," + vo("string(1 div 3)") + "," + vo("string(123456789012)") + "," + vo("string(0.000001)") + "," + vo("string(1000000 * 1000000 * 1000000 * 1000)") + "," + vo("number('  -.5 ')") + "," + vo("number('1.')") + "," + vo("number('+1')") + "," + vo("number(true()) + number(@nosuch = 1)") + "," + vo("round(-0.5)") + "," + vo("round(2.5)") + "," + vo("floor(-0.1)") + "," + vo("substring('12345', 0 div 0, 3)") + "," + vo("substring('12345', -1 div 0, 1 div 0)") + "," + vo("boolean('false')") + "," + vo("string(@v = */@v)") + "," + vo("string(*/@v &gt; 10)"));
        // key() and id() with node-set arguments; a key whose use expression yields several values
        if (on("keynodeset")) { top += "<xsl:key name=\"kns\" match=\"*\" use=\"@k | @v\"/>"; perNode += o("keynodeset", vo("count(key('kns', */@k))") + ":" + vo("count(key('kns', @k | @v))") + ":" + vo("count(id(*/@ref))") + ":" + vo("count(key('kns', 'k1') | key('kns', 'k2'))")); }
        // expressions drawn from the XPath grammar (type-correct), evaluated at every fourth element and once at the root
        if (on("randexpr")) { ExprGen eg(g, false, d.names); std::string body, rootb;
            for (int i = 0; i < 4; ++i) { auto e = eg.make(3); std::string show = e.second == 'N' ? "<xsl:value-of select=\"count(" + e.first + ")\"/>:<xsl:for-each select=\"(" + e.first + ")[position() &lt; 6]\"><xsl:value-of select=\"concat(name(), '=', @id, ' ')\"/></xsl:for-each>" : vo("string(" + e.first + ")");
                body += "{" + show + "}"; if (i < 2) rootb += "{" + show + "}"; }
            // (not on documents with more than 120 elements: a path of several reverse-axis steps costs the product of the intermediate node-set sizes)
            perNode += "<xsl:if test=\"$G1 &lt; 90 and count(preceding::*) mod 4 = 0\">" + o("randexpr", body) + "</xsl:if>"; rootBody += "<xsl:if test=\"$G1 &lt; 90\"><o f=\"randexpr\" n=\"/\">" + rootb + "</o></xsl:if>"; }
        // more named decimal formats with different symbols than the formatter cache holds (10)
        if (on("manydf")) { std::string uses; static const char* const seps = ",:!_~^`|@$?="; for (int i = 0; i < 12; ++i) { std::string n = "mdf" + std::to_string(i); top += "<xsl:decimal-format name=\"" + n + "\" decimal-separator=\"" + std::string(1, seps[i]) + "\" grouping-separator=\"" + std::string(1, seps[(i + 5) % 12]) + "\"/>"; uses += vo("format-number(@v * 1000.5 + " + std::to_string(i) + ", '#" + std::string(1, seps[(i + 5) % 12]) + "##0" + std::string(1, seps[i]) + "0', '" + n + "')") + " "; }
            perNode += "<xsl:if test=\"count(preceding::*) mod 3 = 0\">" + o("manydf", uses) + "</xsl:if>"; }
        // every axis from every kind of context node that is not an element (attribute, text, comment, processing instruction)
        if (on("axes-matrix")) { static const char* const ctx[] = { "@id", "@k", "text()[1]", "comment()[1]", "processing-instruction()[1]" };
            static const char* const ax[] = { "following::*", "preceding::*", "ancestor::*", "parent::*", "following-sibling::node()", "preceding-sibling::node()", "descendant-or-self::node()", "ancestor-or-self::node()", "self::node()", "child::node()", "attribute::*", "following::node()", "preceding::node()", ".." };
            std::string body; for (auto c1 : ctx) { body += std::string("[") + c1 + ":"; for (auto a1 : ax) body += vo(std::string("count(") + c1 + "/" + a1 + ")") + ","; body += "]"; }
            perNode += "<xsl:if test=\"count(preceding::*) mod 3 = 1 or not(ancestor::*)\">" + o("axes-matrix", body) + "</xsl:if>"; }
        // grouping attributes computed at run time; a separator of two characters (at @v = 7) is an error raised inside xsl:number
        if (on("num-groupsep")) perNode += o("num-groupsep", "<xsl:number value=\"(count(preceding::*) + 1) * 98765432101\" grouping-separator=\"{substring(',,', 1, 1 + number(@v = 7 or @v = 3))}\" grouping-size=\"{1 + count(*) mod 4}\"/>|<xsl:number value=\"(count(preceding::*) + 1) * 987654321\" grouping-separator=\"'\" grouping-size=\"3\"/>|<xsl:number value=\"count(preceding::*) * 1234567 + 123456789012\" grouping-separator=\".\" grouping-size=\"2\" format=\"01\"/>");
        // more sort languages in one transformation than the collator cache holds (10): the language comes from the node
        if (on("sort-manylang")) perNode += "<o f=\"sort-manylang\" n=\"{@id}\"><xsl:for-each select=\"*\"><xsl:sort select=\"@k\" lang=\"{substring('dafrenesitnlsvfiplptcshuroelbgtr', 1 + 2 * (count(preceding::*) mod 16), 2)}\" case-order=\"upper-first\"/><xsl:value-of select=\"@id\"/>,</xsl:for-each></o>";
        // an attribute added twice to one element: the later value wins, also when it is shorter or empty.  What comes out is known beforehand
        // (GenSS::expect): every form runs through the same pending-attribute list, so comparing forms with each other would show nothing.
        if (on("attr-replace")) { extraTop2 += "<xsl:attribute-set name=\"arl\"><xsl:attribute name=\"d\">a-rather-long-value-from-the-set</xsl:attribute></xsl:attribute-set>";
            perNode += "<xsl:if test=\"not(ancestor::*)\"><o f=\"attr-replace\" n=\"{@id}\"><e a=\"placeholder-identifier\" b=\"some value\" c=\"x\"><xsl:attribute name=\"a\">K</xsl:attribute><xsl:attribute name=\"b\"/><xsl:attribute name=\"c\">xy</xsl:attribute></e><f xsl:use-attribute-sets=\"arl\" d=\"s\"/><xsl:element name=\"g\" use-attribute-sets=\"arl\"><xsl:attribute name=\"d\">t</xsl:attribute></xsl:element></o></xsl:if>";
            out.expect.emplace_back("attr-replace", "E{|e|^a=K;^b=;^c=xy;|}E{|f|^d=s;|}E{|g|^d=t;|}"); }
        // result tree fragments nested eleven deep (the output context stack grows by one block every few levels)
        if (on("deep-rtf")) { std::string open, close; for (int i = 0; i < 11; ++i) { open += "<xsl:variable name=\"dr" + std::to_string(i) + "\"><l" + std::to_string(i) + ">"; close = "</l" + std::to_string(i) + "></xsl:variable><xsl:copy-of select=\"$dr" + std::to_string(i) + "\"/>" + close; }
            perNode += "<xsl:if test=\"count(preceding::*) mod 5 = 0\"><o f=\"deep-rtf\" n=\"{@id}\">" + open + "<xsl:value-of select=\"@id\"/>" + close + "</o></xsl:if>"; }
        // sixty node-set variables in one template: more borrowed node lists given back at once than the cache has room reserved for (50)
        if (on("many-nodesets")) { std::string vars, uses; for (int i = 0; i < 60; ++i) { vars += "<xsl:variable name=\"mn" + std::to_string(i) + "\" select=\"*[position() &gt; " + std::to_string(i % 4) + "]\"/>"; if (i % 10 == 0) uses += vo("count($mn" + std::to_string(i) + ")") + ","; }
            perNode += "<xsl:if test=\"count(preceding::*) mod 6 = 0\">" + vars + o("many-nodesets", uses) + "</xsl:if>"; }
        // an attribute in a namespace copied to an element where nothing declares its prefix: the declaration has to come along
        // an attribute replaces the one with the same expanded name, whatever the prefixes (XSLT 7.1.3)
        if (on("attr-expanded")) { perNode += "<xsl:if test=\"not(ancestor::*)\"><o f=\"attr-expanded\" n=\"{@id}\"><c><xsl:attribute name=\"za:a\" namespace=\"urn:x-zq\">1</xsl:attribute><xsl:attribute name=\"zb:a\" namespace=\"urn:x-zq\">2</xsl:attribute><xsl:attribute name=\"zb:b\" namespace=\"urn:x-zq\">3</xsl:attribute><xsl:attribute name=\"a\">4</xsl:attribute></c><d xmlns:zc=\"urn:x-zq\" zc:a=\"1\"><xsl:attribute name=\"zd:a\" namespace=\"urn:x-zq\">2</xsl:attribute><xsl:attribute name=\"zd:a\" namespace=\"urn:x-zr\">5</xsl:attribute></d></o></xsl:if>";
            out.expect.emplace_back("attr-expanded", "E{|c|^a=4;urn:x-zq^a=2;urn:x-zq^b=3;|}E{|d|urn:x-zq^a=2;urn:x-zr^a=5;|}"); }
        // a prefix named in exclude-result-prefixes (p2 is) still has to be declared where an attribute of a literal result element uses it
        if (on("excl-attr")) { perNode += "<xsl:if test=\"not(ancestor::*)\"><o f=\"excl-attr\" n=\"{@id}\"><c p2:x=\"1\" p1:y=\"2\"/><d p2:x=\"1\" xml:lang=\"en\"/><g p2:x=\"1\" plain=\"3\"/></o></xsl:if>";
            out.expect.emplace_back("excl-attr", "E{|c|urn:x-ns1^y=2;urn:x-ns2^x=1;|}E{|d|http://www.w3.org/XML/1998/namespace^lang=en;urn:x-ns2^x=1;|}E{|g|^plain=3;urn:x-ns2^x=1;|}"); }
        if (on("copy-ns-attr")) { perNode += "<xsl:if test=\"not(ancestor::*)\"><xsl:variable name=\"cna\"><e xmlns:zq=\"urn:x-zq\" zq:a=\"1\" b=\"2\"/></xsl:variable><o f=\"copy-ns-attr\" n=\"{@id}\"><c><xsl:copy-of xmlns:zq=\"urn:x-zq\" select=\"exsl:node-set($cna)/e/@zq:a\"/></c><d><xsl:for-each xmlns:zq=\"urn:x-zq\" select=\"exsl:node-set($cna)/e/@*\"><xsl:copy/></xsl:for-each></d><g xmlns:zq=\"urn:x-zother\" zq:k=\"0\"><xsl:copy-of xmlns:zq=\"urn:x-zq\" select=\"exsl:node-set($cna)/e/@zq:a\"/></g><h><xsl:attribute name=\"zq:a\" namespace=\"urn:x-zother\">0</xsl:attribute><xsl:for-each xmlns:zq=\"urn:x-zq\" select=\"exsl:node-set($cna)/e/@zq:a\"><xsl:copy/></xsl:for-each></h></o></xsl:if>";
            out.expect.emplace_back("copy-ns-attr", "E{|c|urn:x-zq^a=1;|}E{|d|^b=2;urn:x-zq^a=1;|}E{|g|urn:x-zother^k=0;urn:x-zq^a=1;|}E{|h|urn:x-zother^a=0;urn:x-zq^a=1;|}"); }   /* the prefix of the copied attribute is undeclared (c, d) or bound to another namespace (g, h) where it lands */
        // many result tree fragments alive at the same time (arena blocks of the fragment allocators hold 10)
        if (on("manyrtf")) { std::string vars, uses; for (int i = 0; i < 13; ++i) { std::string n = "mr" + std::to_string(i); vars += "<xsl:variable name=\"" + n + "\"><r" + std::to_string(i) + "><xsl:value-of select=\"@id\"/></r" + std::to_string(i) + ">t" + std::to_string(i) + "</xsl:variable>"; uses += "<xsl:value-of select=\"string-length($" + n + ")\"/>,"; }
            perNode += "<xsl:if test=\"count(preceding::*) mod 4 = 0\">" + vars + "<o f=\"manyrtf\" n=\"{@id}\">" + uses + "<xsl:copy-of select=\"$mr12\"/></o></xsl:if>"; }
        // more than 40 numbers and strings alive at once, released back to back (the XObject factory caches 40)
        if (on("deeprec")) { extraTemplates += "<xsl:template name=\"deep\"><xsl:param name=\"n\" select=\"0\"/><xsl:param name=\"s\" select=\"''\"/><xsl:choose><xsl:when test=\"$n &lt; 55\"><xsl:call-template name=\"deep\"><xsl:with-param name=\"n\" select=\"$n + 1\"/><xsl:with-param name=\"s\" select=\"concat($s, 'x')\"/></xsl:call-template></xsl:when><xsl:otherwise><xsl:value-of select=\"concat($n, ':', string-length($s))\"/></xsl:otherwise></xsl:choose></xsl:template>";
            perNode += "<xsl:if test=\"not(ancestor::*) or @v = 3\"><o f=\"deeprec\" n=\"{@id}\"><xsl:call-template name=\"deep\"><xsl:with-param name=\"n\" select=\"count(*)\"/></xsl:call-template></o></xsl:if>"; }
        if (on("ifbool")) perNode += "<o f=\"ifbool\" n=\"{@id}\"><xsl:if test=\"*\">K</xsl:if><xsl:if test=\"@v\">V</xsl:if><xsl:if test=\"string(@k)\">S</xsl:if><xsl:if test=\"number(@v)\">N</xsl:if><xsl:if test=\"@v = */@v\">E</xsl:if><xsl:if test=\"@v != */@v\">D</xsl:if><xsl:if test=\"*/@v &gt; 10\">G</xsl:if><xsl:if test=\"@k = 'k1' or @k = 'k2' and @v &gt; 3\">P</xsl:if></o>";
        if (on("union")) perNode += "<o f=\"union\" n=\"{@id}\"><xsl:for-each select=\"following-sibling::*[1] | preceding-sibling::*[1] | .. | * | @k\"><xsl:value-of select=\"concat(name(), ':', @id, ' ')\"/></xsl:for-each></o>";
        if (on("preds")) perNode += o("preds", vo("*[2]/@id") + "," + vo("*[last()]/@id") + "," + vo("*[@v][1]/@id") + "," + vo("*[position() &gt; 1][@k='k1']/@id") + "," + vo("(//*)[5]/@id") + "," + vo("descendant::*[3]/@id") + "," + vo("ancestor-or-self::*[last()]/@id") + "," + vo("preceding::*[1]/@id") + "," + vo("(preceding::*)[1]/@id") + "," + vo("../*[@id = current()/@id]/@rk"));
        if (on("valnum")) perNode += o("valnum", vo("number(@v)") + "," + vo("number(@k)") + "," + vo("@v * 0.1") + "," + vo("@v div 3") + "," + vo("1 div 3") + "," + vo("@v * 1000000 * 1000000") + "," + vo("string(number('  12  '))") + "," + vo("number('1e3')") + "," + vo("-0.0") + "," + vo("0.000001 * @v"));
        if (on("text-nodes")) perNode += "<o f=\"text-nodes\" n=\"{@id}\"><xsl:for-each select=\"text()\">[<xsl:value-of select=\"string-length(.)\"/>:<xsl:value-of select=\"position()\"/>]</xsl:for-each><xsl:for-each select=\"comment()|processing-instruction()\">{<xsl:value-of select=\"name()\"/>=<xsl:value-of select=\".\"/>}</xsl:for-each></o>";
        if (on("attr-nodes")) perNode += "<o f=\"attr-nodes\" n=\"{@id}\"><xsl:for-each select=\"@*\"><xsl:sort select=\"name()\"/><xsl:value-of select=\"concat(name(), '=', ., ';', namespace-uri(), ';')\"/></xsl:for-each></o>";
        if (on("ns-axis")) perNode += "<o f=\"ns-axis\" n=\"{@id}\"><xsl:for-each select=\"namespace::*\"><xsl:sort select=\"name()\"/><xsl:value-of select=\"concat(name(), '=', ., ' ')\"/></xsl:for-each></o>";
        if (on("modes")) { extraTemplates += "<xsl:template match=\"*\" mode=\"m2\" priority=\"1\"><xsl:value-of select=\"concat('A', @id)\"/></xsl:template><xsl:template match=\"*[@k]\" mode=\"m2\" priority=\"2\"><xsl:value-of select=\"concat('B', @id)\"/></xsl:template><xsl:template match=\"" + nodeName1 + "\" mode=\"m2\" priority=\"2.5\"><xsl:value-of select=\"concat('C', @id)\"/></xsl:template><xsl:template match=\"text()|@*\" mode=\"m2\"/>";
            perNode += "<o f=\"modes\" n=\"{@id}\"><xsl:apply-templates select=\"*\" mode=\"m2\"><xsl:sort select=\"@rk\" data-type=\"number\" order=\"descending\"/></xsl:apply-templates>|<xsl:apply-templates select=\"*[1]\" mode=\"nomode\"/></o>"; }
        if (on("apply-imports") && c.useImport) { extraTemplates += "<xsl:template match=\"*\" mode=\"imp\">over(<xsl:apply-imports/>)</xsl:template>"; perNode += "<o f=\"apply-imports\" n=\"{@id}\"><xsl:apply-templates select=\".\" mode=\"imp\"/></o>"; }
        if (c.selfDoc) perNode += "<xsl:if test=\"not(ancestor::*)\">" + o("selfdoc", vo("count(document('doc.xml') | /)") + "," + vo("count(//* | document('doc.xml')//*) - count(//*)") + "," + vo("generate-id(/) = generate-id(document('doc.xml'))") + "," + vo("count(document('doc.xml')//*)")) + "</xsl:if>";
        if (on("docfn") && c.docFn) perNode += "<xsl:if test=\"not(ancestor::*)\">" + o("docfn", vo("count(document('aux.xml')//*)") + "," + vo("document('aux.xml')/aux/x[2]") + "," + vo("count(document('')/*/*)  &gt; 0") + "," + vo("count(document('aux.xml')/aux/x | //*[1])")) + "</xsl:if>";
        // ---- a supplementary / 3-byte character placed so that it straddles the end of the serializer's 512-unit buffer:
        // with UTF-8 output the bytes before <pad>'s text are known exactly (declaration, <out total="N">, <pad>)
        if (on("padsupp")) {
            size_t prefix = 38 + 12 + 21 + std::to_string(d.nElems).size() + 2 + 5; /* declaration, <out xmlns:p1="urn:x-ns1" total="N">, <pad> */ int j = (int)g.below(5); bool four = g.chance(2, 3);
            size_t fill = 512 * (1 + g.below(2)) - prefix - (four ? 4 : 3) + j;      // j = 0: fits exactly; 1..3: straddles; 4: next buffer
            std::string filler(fill, 'f'); for (size_t i = 7; i < filler.size(); i += 37) filler[i] = ' ';
            rootBody += "<pad>" + filler + (four ? "\xF0\x9F\x98\x80" : "\xE2\x82\xAC") + "tail" + (four ? "\xF0\x9D\x84\x9E" : "\xE4\xB8\xAD") + "</pad>";
        }
        // ---- root-level observations ----
        if (on("top-nodes")) rootBody += "<o f=\"top-nodes\" n=\"/\">" + vo("count(/comment())") + "," + vo("count(/processing-instruction())") + "," + vo("count(/*)") + ",[" + vo("/comment()[1]") + "],[" + vo("name(/processing-instruction()[last()])") + "],<xsl:for-each select=\"/comment() | /processing-instruction() | /*\"><xsl:value-of select=\"concat(name(), ':', count(preceding-sibling::comment()), ' ')\"/></xsl:for-each></o>";
        // disable-output-escaping on harmless text, directly and through a result tree fragment copied into a CDATA-section element
        if (on("doe")) rootBody += "<xsl:variable name=\"dv\"><xsl:text disable-output-escaping=\"yes\">rawtext</xsl:text></xsl:variable><o f=\"doe\" n=\"/\"><xsl:value-of select=\"'plain'\" disable-output-escaping=\"yes\"/><cd><xsl:copy-of select=\"$dv\"/></cd><d>1 &lt; 2 &amp; 3 &gt; 0</d><xsl:copy-of select=\"$dv\"/><e a=\"&lt;&amp;\">x &lt; y</e></o>";
        if (on("doctype-node")) rootBody += "<o f=\"doctype-node\" n=\"/\">" + vo("count(/node())") + "," + vo("count(/*)") + "," + vo("count(/comment())") + "," + vo("count(/processing-instruction())") + "</o>";

        // ---- abort cause ----
        std::string abortCode;
        if (c.abortKind == "message") abortCode = "<xsl:message terminate=\"yes\">stop at <xsl:value-of select=\"@id\"/></xsl:message>";
        else if (c.abortKind == "key") abortCode = "<xsl:value-of select=\"count(key('nosuchkey', 1))\"/>";
        else if (c.abortKind == "extfn") abortCode = "<xsl:value-of select=\"nofn:nothing(1)\"/>";
        else if (c.abortKind == "badname") abortCode = "<xsl:element name=\"{concat('1bad ', @id)}\"/>";
        if (!abortCode.empty()) {
            // where the abort strikes: directly in the template, three iterations deep, or inside a variable body that already holds text
            std::string guarded = "<xsl:if test=\"@id = '" + c.abortNode + "'\">" + abortCode + "</xsl:if>";
            if (c.abortPlace == 1) guarded = "<xsl:for-each select=\". | *[1]\"><xsl:for-each select=\"..//*[position() &lt; 4] | .\"><xsl:for-each select=\"ancestor-or-self::*\">" + guarded + "</xsl:for-each></xsl:for-each></xsl:for-each>";
            else if (c.abortPlace == 2) guarded = "<xsl:variable name=\"abv\">LEFTOVER-<xsl:value-of select=\"@id\"/>" + guarded + "<t/></xsl:variable><xsl:if test=\"string-length($abv) = 0\">x</xsl:if>";
            perNode = guarded + perNode;
        }

        // ---- assemble ----
        std::string s = "<?xml version=\"1.0\"?>\n<xsl:stylesheet version=\"1.0\" xmlns:xsl=\"http://www.w3.org/1999/XSL/Transform\"";
        s += std::string(" xmlns:p1=\"") + NS1 + "\" xmlns:p2=\"" + NS2 + "\"";
        s += " xmlns:xalan=\"http://xml.apache.org/xalan\" xmlns:exsl=\"http://exslt.org/common\" xmlns:set=\"http://exslt.org/sets\" xmlns:math=\"http://exslt.org/math\" xmlns:str=\"http://exslt.org/strings\" xmlns:nofn=\"urn:x-nofn\" xmlns:ext=\"urn:x-ext\" xmlns:dyn=\"http://exslt.org/dynamic\" xmlns:ax=\"urn:x-alias-ss\" xmlns:ar=\"urn:x-alias-result\"";
        s += std::string(" xmlns:kp=\"urn:x-key-") + (c.keyVariant % 2 ? "1" : "0") + "\" xmlns:kq=\"urn:x-key-" + (c.keyVariant % 2 ? "0" : "1") + "\"";
        if (c.dupExtPrefix) s += " xmlns:xe1=\"urn:x-extelem\" xmlns:xe2=\"urn:x-extelem\" extension-element-prefixes=\"xe1 xe2\"";
        s += " exclude-result-prefixes=\"xalan exsl set math str nofn ext p2 dyn kp kq ax\">\n";
        if (c.useImport) {
            s += "<xsl:import href=\"imp1.xsl\"/>\n";
            out.resources["imp1.xsl"] = "<?xml version=\"1.0\"?><xsl:stylesheet version=\"1.0\" xmlns:xsl=\"http://www.w3.org/1999/XSL/Transform\"><xsl:template match=\"*\" mode=\"imp\">imp:<xsl:value-of select=\"@id\"/></xsl:template><xsl:template match=\"*[@k='k1']\" mode=\"imp\" priority=\"3\">impk1:<xsl:value-of select=\"@id\"/></xsl:template><xsl:variable name=\"IMPV\" select=\"'from-import'\"/></xsl:stylesheet>";
        }
        s += "<xsl:output" + (c.method.empty() ? std::string() : " method=\"" + c.method + "\"") + " encoding=\"" + (c.abortKind == "encoding" ? std::string("x-no-such-enc") : c.encoding) + "\"" + (c.indentAmount >= 0 ? std::string() : std::string(" indent=\"no\""));
        if (c.omitDecl) s += " omit-xml-declaration=\"yes\"";
        if (c.indentAmount >= 0) s += std::string(" indent=\"") + (c.indentAmount % 2 ? "yes" : "no") + "\" xalan:indent-amount=\"" + std::to_string(c.indentAmount) + "\"";
        if (c.cdataElems) s += " cdata-section-elements=\"cd\"";
        s += "/>\n";
        if (c.useInclude) {
            s += std::string("<xsl:include href=\"") + (c.sysIdStyle == "noslash" ? "../inc1.xsl" : "inc1.xsl") + "\"/>\n";
            out.resources["inc1.xsl"] = "<?xml version=\"1.0\"?><xsl:stylesheet version=\"1.0\" xmlns:xsl=\"http://www.w3.org/1999/XSL/Transform\"><xsl:template name=\"incT\"><xsl:param name=\"x\"/>inc[<xsl:value-of select=\"$x\"/>]</xsl:template></xsl:stylesheet>";
        }
        if (c.stripSpace) s += c.stripNames.empty() ? std::string("<xsl:strip-space elements=\"*\"/><xsl:preserve-space elements=\"p item\"/>\n") : "<xsl:strip-space elements=\"" + c.stripNames + "\"/>\n";
        if (c.useParam || c.on.count("param") || c.on.count("paramuse") || c.on.count("gate") || c.on.count("num-gate") || c.on.count("sort-gate") || c.on.count("sort-avt")) s += "<xsl:param name=\"P1\" select=\"'dflt'\"/><xsl:param name=\"P2\" select=\"40\"/><xsl:param name=\"N\" select=\"/..\"/>\n";
        s += "<xsl:variable name=\"G1\" select=\"count(//*)\"/><xsl:variable name=\"GP\" select=\"concat(position(), '/', last())\"/>\n";
        if (c.on.count("gate") || c.on.count("num-gate")) s += "<xsl:variable name=\"GATE\"><xsl:if test=\"$P1 = 'abort'\"><xsl:message terminate=\"yes\">gate closed</xsl:message></xsl:if><xsl:if test=\"$P1 = 'badkey'\"><xsl:value-of select=\"count(key('nosuchkey', 1))\"/></xsl:if>open</xsl:variable>\n";
        if (c.on.count("lazyvar")) s += "<xsl:variable name=\"LAZY1\" select=\"sum(//@v[. &gt; 0])\"/><xsl:variable name=\"LAZY2\" select=\"//*[@k][position() &lt; 4]\"/>\n";
        if (c.docFn) out.resources["aux.xml"] = "<?xml version=\"1.0\"?><aux><x id=\"x1\">one</x><x id=\"x2\">two</x><y><x id=\"x3\">three</x></y></aux>";
        s += top + extraTop2 + "\n";
        s += "<xsl:template match=\"/\"><" + c.rootName + " total=\"{$G1}\" ctx=\"{position()}/{last()}/{$GP}\">" + (c.stripSpace ? std::string("<o f=\"ws-census\" n=\"/\"><xsl:value-of select=\"count(/*/text())\"/></o>") : std::string()) + rootBody;
        if (c.useInclude) s += "<o f=\"include\" n=\"/\"><xsl:call-template name=\"incT\"><xsl:with-param name=\"x\" select=\"$G1\"/></xsl:call-template></o>";
        if (c.useImport) s += "<o f=\"import-var\" n=\"/\"><xsl:value-of select=\"$IMPV\"/></o>";
        if (c.cdataElems) s += "<cd><xsl:value-of select=\"normalize-space((//text()[normalize-space()])[1])\"/></cd>";
        if (c.order == "rk") s += "<xsl:apply-templates select=\"//*\" mode=\"obs\"><xsl:sort select=\"@rk\" data-type=\"number\"/></xsl:apply-templates>";
        else if (c.order == "rev") s += "<xsl:apply-templates select=\"//*\" mode=\"obs\"><xsl:sort select=\"position()\" data-type=\"number\" order=\"descending\"/></xsl:apply-templates>";
        else s += "<xsl:apply-templates select=\"//*\" mode=\"obs\"/>";
        if (c.stripSpace) s += "<o f=\"ws-census\" n=\"/\"><xsl:value-of select=\"count(//text())\"/>,<xsl:value-of select=\"count(/*/text()[not(normalize-space())])\"/></o>";   // the white-space-only children of the document element are the last nodes xsl:strip-space is asked about
        s += "</" + c.rootName + "></xsl:template>\n";
        s += "<xsl:template match=\"*\" mode=\"obs\">" + perNode + "</xsl:template>\n";
        s += extraTemplates + "\n";
        s += "</xsl:stylesheet>\n";
        out.xsl = s;
        return out;
    }
};

inline GenSS genStylesheet(Rng& g, const SSCfg& c, const GenDoc& d) { SSGen s(g, c, d); return s.make(); }

// swarm choice of features: each run enables a random subset (3..10) of the allowed ones
inline std::set<std::string> pickFeatures(Rng& g, const std::vector<std::string>& allowed, int lo = 3, int hi = 10) {
    std::set<std::string> r; int n = (int)g.range(lo, hi);
    for (int i = 0; i < n && !allowed.empty(); ++i) r.insert(allowed[g.below(allowed.size())]);
    return r;
}

// features excluded by default because they hit documented known findings or need opt-in context
inline std::vector<std::string> featuresExcept(const std::set<std::string>& ex) {
    std::vector<std::string> r; for (auto& f : allFeatures()) if (!ex.count(f)) r.push_back(f); return r;
}

// Parse <o f=".." n="..">..</o> records out of a result (flat scan; values may contain nested markup).
struct Obs { std::string f, n, v; };
inline std::vector<Obs> parseObs(const std::string& out) {
    std::vector<Obs> r; size_t p = 0;
    while ((p = out.find("<o f=\"", p)) != std::string::npos) {
        size_t fe = out.find('"', p + 6); if (fe == std::string::npos) break;
        Obs o; o.f = out.substr(p + 6, fe - (p + 6));
        size_t ns = out.find("n=\"", fe); if (ns == std::string::npos) break; size_t ne = out.find('"', ns + 3); if (ne == std::string::npos) break;
        o.n = out.substr(ns + 3, ne - (ns + 3));
        size_t gt = out.find('>', ne); if (gt == std::string::npos) break;
        if (out[gt - 1] == '/') { r.push_back(o); p = gt; continue; }
        size_t end = out.find("</o>", gt); if (end == std::string::npos) { o.v = out.substr(gt + 1); r.push_back(o); break; }
        o.v = out.substr(gt + 1, end - gt - 1); r.push_back(o); p = end + 4;
    }
    return r;
}
// First differing observation between two outputs -> "feature" signature (or "" if equal / "non-obs" if only other bytes differ)
inline std::string firstObsDiff(const std::string& a, const std::string& b, std::string* detail = nullptr) {
    if (a == b) return "";
    auto A = parseObs(a), B = parseObs(b);
    size_t n = std::min(A.size(), B.size());
    for (size_t i = 0; i < n; ++i) if (A[i].f != B[i].f || A[i].n != B[i].n || A[i].v != B[i].v) {
        if (detail) *detail = "obs#" + std::to_string(i) + " f=" + A[i].f + " n=" + A[i].n + " [" + A[i].v.substr(0, 120) + "] vs f=" + B[i].f + " n=" + B[i].n + " [" + B[i].v.substr(0, 120) + "]";
        return A[i].f;
    }
    if (A.size() != B.size()) { if (detail) *detail = "record count " + std::to_string(A.size()) + " vs " + std::to_string(B.size()); return A.size() > n ? A[n].f : B[n].f; }
    if (detail) { size_t i = 0; while (i < a.size() && i < b.size() && a[i] == b[i]) ++i; *detail = "bytes differ at " + std::to_string(i) + " of " + std::to_string(a.size()) + "/" + std::to_string(b.size()); }
    return "non-obs";
}

} // namespace sim
