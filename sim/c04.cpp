// C04 — the xml output method writes a well-formed document in the declared encoding that parses back to the result tree.
// One run = one script of SAX events (by value) x several configurations (serializer, buffer/transcoder-block sizes,
// explicit flush placement, sink fault).  Oracles: round trip through an independent parser (Xerces SAX2), error-or-correct
// for unrepresentable trees, knob independence (byte-identical output), serializer agreement, sink-fault handling.
#include "glue.hpp"
#include "c04_text.hpp"
#include "xform.hpp"
#include <xalanc/XMLSupport/XalanXMLSerializerFactory.hpp>
#include <xalanc/XMLSupport/FormatterToXML.hpp>
#include <xalanc/PlatformSupport/XalanOutputStreamPrintWriter.hpp>
#include <xalanc/PlatformSupport/AttributeListImpl.hpp>
#include <xalanc/PlatformSupport/FormatterListener.hpp>
#include <xercesc/sax2/SAX2XMLReader.hpp>
#include <xercesc/sax2/XMLReaderFactory.hpp>
#include <xercesc/sax2/DefaultHandler.hpp>
#include <xercesc/sax2/Attributes.hpp>
#include <xercesc/framework/MemBufInputSource.hpp>
#include <xercesc/sax/SAXParseException.hpp>
#include <xercesc/util/XMLUni.hpp>
#include <xercesc/util/OutOfMemoryException.hpp>
#include <algorithm>
#include <memory>
#include <functional>
#include <signal.h>
#include <time.h>
#include <unistd.h>

using namespace sim;
using namespace xalanc;
using namespace c04;

namespace {

// =================================================================== script (as the plan carries it)
struct AttrS { XS name, value; };
struct EvS { std::string kind; XS name, text, target; std::vector<AttrS> attrs; };
struct Script { std::string encoding, version; std::vector<XS> cdataElems; std::vector<EvS> ev; std::string dtSys, dtPub, standalone; bool omitDecl = false; };

Script scriptFromPlan(const Json& p) {
    Script s; s.encoding = p.str("encoding", "UTF-8"); s.version = p.str("version", "1.0");
    s.dtSys = p.str("doctype_system", ""); s.dtPub = p.str("doctype_public", ""); s.standalone = p.str("standalone", ""); s.omitDecl = p.boolean("omit_decl");
    for (auto& n : p.at("cdata_elems").a) s.cdataElems.push_back(xsFromJson(n));
    for (auto& e : p.at("events").a) {
        if (e.t != Json::Obj) continue;
        EvS v; v.kind = e.str("k");
        v.name = xsFromJson(e.at("name")); v.target = xsFromJson(e.at("target")); v.text = xsFromJson(e.at("text"));
        for (auto& a : e.at("attrs").a) { if (a.t != Json::Obj) continue; AttrS x; x.name = xsFromJson(a.at("n")); x.value = xsFromJson(a.at("v")); v.attrs.push_back(x); }
        s.ev.push_back(v);
    }
    return s;
}
Json eventToJson(const EvS& v) {
    Json e = Json::object(); e["k"] = v.kind;
    if (v.kind == "startElement") { e["name"] = nameToJson(v.name); Json as = Json::array(); for (auto& a : v.attrs) { Json o = Json::object(); o["n"] = nameToJson(a.name); o["v"] = textToJson(a.value); as.push(o); } e["attrs"] = as; }
    else if (v.kind == "pi") { e["target"] = nameToJson(v.target); e["text"] = textToJson(v.text); }
    else if (v.kind == "characters" || v.kind == "cdata" || v.kind == "comment" || v.kind == "ignorableWhitespace") e["text"] = textToJson(v.text);
    return e;
}
Json eventsToJson(const Script& s) { Json a = Json::array(); for (auto& e : s.ev) a.push(eventToJson(e)); return a; }
Json cdataToJson(const Script& s) { Json a = Json::array(); for (auto& n : s.cdataElems) a.push(nameToJson(n)); return a; }

// =================================================================== model: what is fed to a serializer, and the tree that must come back
enum FK { F_SE, F_EE, F_CH, F_CD, F_IW, F_CM, F_PI, F_FL };
struct Feed { FK k; XS name, text, target; std::vector<AttrS> attrs; };
enum NK { N_SE, N_EE, N_T, N_C, N_PI };
struct AttrV { XS uri, value; };
struct Node { NK k; XS qname, uri, text; std::map<XS, AttrV> attrs; bool viaCdata = false; };
struct Model { std::vector<Feed> feed; std::vector<Node> exp; std::vector<bool> evCdata; /* per script event: character data that goes through cdata() */ };

const XS XMLNS = ascii("xmlns");
XS stripNul(const XS& s) { XS r; for (auto c : s) if (c) r += c; return r; }
bool startsWith(const XS& s, const XS& p) { return s.size() >= p.size() && s.compare(0, p.size(), p) == 0; }
void splitQ(const XS& q, XS& prefix, XS& local) { size_t c = q.find(u':'); if (c == XS::npos) { prefix.clear(); local = q; } else { prefix = q.substr(0, c); local = q.substr(c + 1); } }
bool isXmlnsAttr(const XS& n) { return n == XMLNS || startsWith(n, ascii("xmlns:")); }

void addText(Model& m, const XS& t, bool viaCdata) {
    if (t.empty()) return;
    if (!m.exp.empty() && m.exp.back().k == N_T) { m.exp.back().text += t; m.exp.back().viaCdata |= viaCdata; return; }
    Node n; n.k = N_T; n.text = t; n.viaCdata = viaCdata; m.exp.push_back(n);
}

// Interprets any event list as a namespace-well-formed document: unmatched endElement is ignored, open elements are closed at
// the end, character data outside the document element is dropped, a second top-level element is skipped, undeclared prefixes
// get a declaration, duplicate attributes are dropped, comment/PI data is made legal the way xsl:comment / xsl:processing-instruction do.
Model buildModel(const Script& s) {
    Model m; std::vector<XS> open; std::vector<std::map<XS, XS>> ns(1); ns[0][ascii("xml")] = ascii("http://www.w3.org/XML/1998/namespace");
    std::set<XS> cd(s.cdataElems.begin(), s.cdataElems.end());
    bool rootDone = false; int skip = 0; m.evCdata.assign(s.ev.size(), false);
    for (size_t evi = 0; evi < s.ev.size(); ++evi) {
        const EvS& e = s.ev[evi]; const std::string& k = e.kind;
        if (skip > 0) { if (k == "startElement") ++skip; else if (k == "endElement") --skip; continue; }
        if (k == "startElement") {
            if (open.empty() && rootDone) { skip = 1; continue; }
            Feed f; f.k = F_SE; f.name = stripNul(e.name); if (f.name.empty()) f.name = ascii("e");
            std::map<XS, XS> scope = ns.back(); std::set<XS> seen; std::vector<AttrS> given, extra;
            for (auto& a : e.attrs) {
                AttrS x; x.name = stripNul(a.name); x.value = stripNul(a.value);
                if (x.name.empty() || seen.count(x.name)) continue;
                if (startsWith(x.name, ascii("xmlns:"))) { XS p = x.name.substr(6); if (p.empty() || p == ascii("xml") || p == XMLNS) continue; if (x.value.empty()) x.value = ascii("urn:e"); scope[p] = x.value; }
                else if (x.name == XMLNS) scope[XS()] = x.value;
                seen.insert(x.name); given.push_back(x);
            }
            // a prefix nobody declared gets a declaration on this element
            auto need = [&](const XS& p) { if (p.empty() || p == ascii("xml") || scope.count(p)) return; AttrS x; x.name = ascii("xmlns:") + p; x.value = ascii("urn:auto:") + p; scope[p] = x.value; extra.push_back(x); };
            XS pre, loc; splitQ(f.name, pre, loc); need(pre);
            std::set<std::pair<XS, XS>> expanded;
            for (auto& x : given) {
                if (!isXmlnsAttr(x.name)) { XS ap, al; splitQ(x.name, ap, al); if (!ap.empty()) { if (ap == XMLNS) continue; need(ap); auto key = std::make_pair(scope[ap], al); if (expanded.count(key)) continue; expanded.insert(key); } }
                f.attrs.push_back(x);
            }
            for (auto& x : extra) f.attrs.push_back(x);
            Node n; n.k = N_SE; n.qname = f.name; n.uri = pre.empty() ? (scope.count(XS()) ? scope[XS()] : XS()) : scope[pre];
            for (auto& x : f.attrs) { AttrV v; v.value = x.value; if (!isXmlnsAttr(x.name)) { XS ap, al; splitQ(x.name, ap, al); if (!ap.empty()) v.uri = scope[ap]; } n.attrs[x.name] = v; }
            m.feed.push_back(f); m.exp.push_back(n); open.push_back(f.name); ns.push_back(scope);
        } else if (k == "endElement") {
            if (open.empty()) continue;
            Feed f; f.k = F_EE; f.name = open.back(); m.feed.push_back(f); Node n; n.k = N_EE; n.qname = f.name; m.exp.push_back(n);
            open.pop_back(); ns.pop_back(); if (open.empty()) rootDone = true;
        } else if (k == "characters" || k == "cdata" || k == "ignorableWhitespace") {
            if (open.empty()) continue;
            Feed f; f.text = e.text;
            if (k == "ignorableWhitespace" && !cd.count(open.back())) { XS w; for (auto c : e.text) if (isXmlWs(c)) w += c; f.text = w; f.k = F_IW; }
            else f.k = (k == "cdata" || cd.count(open.back())) ? F_CD : F_CH;
            m.evCdata[evi] = f.k == F_CD;
            if (f.text.empty()) continue;
            m.feed.push_back(f); addText(m, f.text, f.k == F_CD);
        } else if (k == "comment") {
            Feed f; f.k = F_CM; XS t = stripNul(e.text), r;
            for (size_t i = 0; i < t.size(); ++i) { r += t[i]; if (t[i] == u'-' && (i + 1 == t.size() || t[i + 1] == u'-')) r += u' '; }
            f.text = r; m.feed.push_back(f); Node n; n.k = N_C; n.text = r; m.exp.push_back(n);
        } else if (k == "pi") {
            Feed f; f.k = F_PI; f.target = stripNul(e.target);
            { std::string low; for (auto c : f.target) low += (char)(c < 128 ? tolower(c) : '?'); if (f.target.empty() || low == "xml" || low == "xslt-next-is-raw") f.target = ascii("pi"); }
            XS t = stripNul(e.text), r; size_t b = 0; while (b < t.size() && isXmlWs(t[b])) ++b;
            for (size_t i = b; i < t.size(); ++i) { r += t[i]; if (t[i] == u'?' && i + 1 < t.size() && t[i + 1] == u'>') r += u' '; }
            f.text = r; m.feed.push_back(f); Node n; n.k = N_PI; n.qname = f.target; n.text = r; m.exp.push_back(n);
        } else if (k == "flush") { Feed f; f.k = F_FL; m.feed.push_back(f); }
        // startDocument / endDocument and anything unknown: implied / ignored
    }
    while (!open.empty()) { Feed f; f.k = F_EE; f.name = open.back(); m.feed.push_back(f); Node n; n.k = N_EE; n.qname = f.name; m.exp.push_back(n); open.pop_back(); rootDone = true; }
    if (!rootDone) { Feed f; f.k = F_SE; f.name = ascii("r"); m.feed.push_back(f); Node n; n.k = N_SE; n.qname = f.name; m.exp.push_back(n); f.k = F_EE; m.feed.push_back(f); n.k = N_EE; m.exp.push_back(n); }
    return m;
}

const char* constructOfNode(const Node& n, bool tagOnly = false) {
    switch (n.k) { case N_SE: return tagOnly ? "tag" : "name"; case N_EE: return "end-tag"; case N_T: return n.viaCdata ? "cdata" : "text"; case N_C: return "comment"; default: return "pi"; }
}

// is the tree representable at all in (version, encoding)?  if not, an error is an acceptable outcome
struct Repr { bool ok = true; std::string why; };
Repr representable(const Model& m, bool v11, EncInfo& enc) {
    Repr r; auto bad = [&](const std::string& w) { if (r.ok) { r.ok = false; r.why = w; } };
    auto always = [](uint32_t c) { return c == 0 || (c >= 0xD800 && c <= 0xDFFF) || c == 0xFFFE || c == 0xFFFF; };
    auto name = [&](const XS& s) { for (auto c : decode(s)) { if (always(c)) bad("name contains forbidden U+" + hexCp(c)); else if (!enc.can(c)) bad("name character U+" + hexCp(c) + " is not in " + enc.name); } };
    auto content = [&](const XS& s, const char* what) { for (auto c : decode(s)) { if (always(c)) bad(std::string(what) + " contains forbidden U+" + hexCp(c)); else if (!v11 && c < 0x20 && c != 9 && c != 10 && c != 13) bad(std::string(what) + " contains U+" + hexCp(c) + ", not an XML 1.0 character"); } };
    auto literal = [&](const XS& s, const char* what) {   // comment / PI data: no character references possible
        for (auto c : decode(s)) {
            if (always(c)) bad(std::string(what) + " contains forbidden U+" + hexCp(c));
            else if (c == 13) bad(std::string(what) + " contains CR, which no parser reports back");
            else if (c < 0x20 && c != 9 && c != 10) bad(std::string(what) + " contains control U+" + hexCp(c));
            else if (v11 && ((c >= 0x7F && c <= 0x9F) || c == 0x2028)) bad(std::string(what) + " contains U+" + hexCp(c) + ", which XML 1.1 only carries as a character reference");
            else if (!enc.can(c)) bad(std::string(what) + " character U+" + hexCp(c) + " is not in " + enc.name);
        }
    };
    // A surrogate pair split between two events (e.g. the high half at the end of a characters() event and the low half at the start of a cdata()
    // event) merges into a legal character in the model's text node, but no serializer can be expected to pair halves across events of
    // different kinds: such a script counts as not representable (an error is an acceptable outcome).
    for (auto& f : m.feed) if (f.k == F_CH || f.k == F_CD || f.k == F_IW) {
        const XS& t = f.text;
        for (size_t i = 0; i < t.size(); ++i) {
            if (t[i] >= 0xD800 && t[i] <= 0xDBFF) { if (i + 1 < t.size() && t[i + 1] >= 0xDC00 && t[i + 1] <= 0xDFFF) { ++i; continue; } bad("a text event ends in (or contains) an unpaired high surrogate"); }
            else if (t[i] >= 0xDC00 && t[i] <= 0xDFFF) bad("a text event starts with (or contains) an unpaired low surrogate");
        }
    }
    for (auto& n : m.exp) {
        if (n.k == N_SE) { name(n.qname); for (auto& a : n.attrs) { name(a.first); content(a.second.value, "attribute value"); } }
        else if (n.k == N_T) content(n.text, "text");
        else if (n.k == N_C) literal(n.text, "comment");
        else if (n.k == N_PI) { name(n.qname); literal(n.text, "processing instruction"); }
    }
    return r;
}
bool xml10Clean(const Model& m) {
    auto ok = [](const XS& s, bool lit) { for (auto c : decode(s)) { if (!xml10Char(c)) return false; if (lit && c == 13) return false; } return true; };
    for (auto& n : m.exp) {
        if (!ok(n.qname, false)) return false;
        if (n.k == N_T && !ok(n.text, false)) return false;
        if ((n.k == N_C || n.k == N_PI) && !ok(n.text, true)) return false;
        for (auto& a : n.attrs) if (!ok(a.first, false) || !ok(a.second.value, false)) return false;
    }
    return true;
}

// =================================================================== configurations
struct Cfg {
    std::string ser = "factory";          // factory | legacy | pipeline
    unsigned b = 512, t = 1024; std::vector<int64_t> flushes; SinkFault fault;
    XMLCh after[2] = { 0, 0 };                           // what lies in memory right behind character data handed to the listener
    std::string form = "callback", variant = "copy";     // pipeline only
    std::string prelude;                                 // encoding of a small document written through the same stream and writer first ("" = fresh stream)
    Json raw;
    std::string key(bool withFault = true) const {
        std::string k = ser + "|" + std::to_string(b) + "|" + std::to_string(t) + "|"; for (auto f : flushes) k += std::to_string(f) + ",";
        if (after[0] || after[1]) k += "|after:" + hexCp(after[0]) + "," + hexCp(after[1]);
        if (ser == "pipeline") k += "|" + form + "|" + variant;
        if (!prelude.empty()) k += "|after-" + prelude;
        if (withFault && !fault.kind.empty()) k += "|" + fault.kind + "@" + std::to_string(fault.at);
        return k;
    }
    std::string group() const { return ser == "pipeline" ? ser + ":" + variant : ser; }
};
Cfg cfgFromJson(const Json& j) {
    Cfg c; c.raw = j; c.ser = j.str("ser", "factory"); c.b = (unsigned)std::max<int64_t>(1, std::min<int64_t>(j.num("b", 512), 1 << 16)); c.t = (unsigned)std::max<int64_t>(1, std::min<int64_t>(j.num("t", 1024), 1 << 16));
    for (auto& f : j.at("flushes").a) if (f.t == Json::Int && f.i >= 0) c.flushes.push_back(f.i);
    c.prelude = j.str("prelude", "");
    c.fault = SinkFault::fromJson(j.at("fault")); c.form = j.str("form", "callback"); c.variant = j.str("variant", "copy");
    { const Json& a = j.at("after"); for (size_t i = 0; i < 2 && i < a.a.size(); ++i) if (a.a[i].t == Json::Int) c.after[i] = (XMLCh)(a.a[i].i & 0xFFFF); }
    return c;
}
Cfg withoutFault(const Cfg& c) { Cfg r = c; r.fault = SinkFault(); return r; }

// =================================================================== running one configuration
struct Out {
    std::string bytes; std::vector<size_t> chunks; bool threw = false; std::string excType, excMsg; int excAt = -1;
    uint64_t writes = 0, flushes = 0, fired = 0, writesAfterFault = 0, writesAtEnd = 0, flushesAtEnd = 0, badFrees = 0, refused = 0; bool skipped = false;
};
const uint64_t MEM_BUDGET = 4u << 20;      // per configuration; the documents written here are a few kilobytes

template <class F> void guarded(Out& o, F f) {
    try { f(); }
    catch (const SinkFailure&) { o.threw = true; o.excType = "SinkFailure"; }
    catch (const XSLException& e) { o.threw = true; o.excType = toUtf8(XalanDOMString(e.getType())); o.excMsg = toUtf8(e.getMessage()); }
    catch (const xercesc::SAXException& e) { o.threw = true; o.excType = "SAXException"; o.excMsg = toUtf8(XalanDOMString(e.getMessage())); }
    catch (const xercesc::XMLException& e) { o.threw = true; o.excType = "XMLException"; o.excMsg = toUtf8(XalanDOMString(e.getMessage())); }
    catch (const xercesc::OutOfMemoryException&) { o.threw = true; o.excType = "OutOfMemoryException"; }
    catch (const std::exception& e) { o.threw = true; o.excType = "std::exception"; o.excMsg = e.what(); }
    catch (...) { o.threw = true; o.excType = "unknown"; }
}

// character data goes to the listener in a buffer of `length` units (the interface passes a length, not a terminator)
// and of two more units whose content is the configuration's business: the output must not depend on them
struct Exact { std::unique_ptr<XMLCh[]> p; size_t n; Exact(const XS& s, const XMLCh* after) : p(new XMLCh[s.size() + 2]), n(s.size()) { std::copy(s.begin(), s.end(), p.get()); p[n] = after[0]; p[n + 1] = after[1]; } };

void feedAll(FormatterListener& fl, Writer& pw, const Model& m, const Cfg& c, Out& o, MemoryManager& mm) {
    std::set<size_t> fl_at; for (auto f : c.flushes) fl_at.insert((size_t)(f % (int64_t)(m.feed.size() + 1)));
    static const XMLCh cdataType[] = { 'C', 'D', 'A', 'T', 'A', 0 };
    o.excAt = -1; fl.startDocument();
    for (size_t i = 0; i < m.feed.size(); ++i) {
        o.excAt = (int)i;
        if (fl_at.count(i)) pw.flush();
        const Feed& f = m.feed[i];
        switch (f.k) {
        case F_SE: { AttributeListImpl al(mm); for (auto& a : f.attrs) al.addAttribute(a.name.c_str(), cdataType, a.value.c_str()); fl.startElement(f.name.c_str(), al); break; }
        case F_EE: fl.endElement(f.name.c_str()); break;
        case F_CH: { Exact x(f.text, c.after); fl.characters(x.p.get(), (FormatterListener::size_type)x.n); break; }
        case F_CD: { Exact x(f.text, c.after); fl.cdata(x.p.get(), (FormatterListener::size_type)x.n); break; }
        case F_IW: { Exact x(f.text, c.after); fl.ignorableWhitespace(x.p.get(), (FormatterListener::size_type)x.n); break; }
        case F_CM: fl.comment(f.text.c_str()); break;
        case F_PI: fl.processingInstruction(f.target.c_str(), f.text.c_str()); break;
        case F_FL: pw.flush(); break;
        }
    }
    o.excAt = (int)m.feed.size();
    if (fl_at.count(m.feed.size())) pw.flush();
    fl.endDocument();
}

std::string xmlEscape(const XS& s, bool attr) {
    XS r;
    for (auto c : s) {
        switch (c) {
        case u'&': r += ascii("&amp;"); break; case u'<': r += ascii("&lt;"); break; case u'>': r += ascii("&gt;"); break;
        case u'"': if (attr) r += ascii("&quot;"); else r += c; break;
        case 13: r += ascii("&#13;"); break;
        case 9: if (attr) r += ascii("&#9;"); else r += c; break;
        case 10: if (attr) r += ascii("&#10;"); else r += c; break;
        default: r += c;
        }
    }
    return utf8(r);
}
// the same tree as an XML 1.0 / UTF-8 source document, written by this independent little writer
std::string sourceDocument(const Model& m) {
    std::string d = "<?xml version=\"1.0\" encoding=\"UTF-8\"?>"; std::vector<bool> hasKids;
    for (auto& f : m.feed) {
        switch (f.k) {
        case F_SE: d += "<" + utf8(f.name); for (auto& a : f.attrs) d += " " + utf8(a.name) + "=\"" + xmlEscape(a.value, true) + "\""; d += ">"; break;
        case F_EE: d += "</" + utf8(f.name) + ">"; break;
        case F_CH: case F_CD: case F_IW: d += xmlEscape(f.text, false); break;
        case F_CM: d += "<!--" + utf8(f.text) + "-->"; break;
        case F_PI: d += "<?" + utf8(f.target) + (f.text.empty() ? "" : " " + utf8(f.text)) + "?>"; break;
        default: break;
        }
    }
    return d;
}
std::string stylesheetFor(const Script& s, const Model& m, const Cfg& c) {
    std::map<XS, XS> decl;
    for (auto& f : m.feed) if (f.k == F_SE) for (auto& a : f.attrs) if (startsWith(a.name, ascii("xmlns:")) && !decl.count(a.name.substr(6))) decl[a.name.substr(6)] = a.value;
    std::string x = "<?xml version=\"1.0\" encoding=\"UTF-8\"?><xsl:stylesheet version=\"1.0\" xmlns:xsl=\"http://www.w3.org/1999/XSL/Transform\"";
    for (auto& kv : decl) if (kv.first != ascii("xsl")) x += " xmlns:" + utf8(kv.first) + "=\"" + xmlEscape(kv.second, true) + "\"";
    x += "><xsl:output method=\"xml\" indent=\"no\" encoding=\"" + s.encoding + "\" version=\"" + s.version + "\"";
    if (!s.dtSys.empty()) x += " doctype-system=\"" + xmlEscape(ascii(s.dtSys.c_str()), true) + "\""; if (!s.dtPub.empty()) x += " doctype-public=\"" + xmlEscape(ascii(s.dtPub.c_str()), true) + "\"";
    if (!s.standalone.empty()) x += " standalone=\"" + s.standalone + "\""; if (s.omitDecl) x += " omit-xml-declaration=\"yes\"";
    std::string cd; for (auto& n : s.cdataElems) { XS p, l; splitQ(stripNul(n), p, l); if (n.empty() || (!p.empty() && !decl.count(p))) continue; if (!cd.empty()) cd += " "; cd += xmlEscape(stripNul(n), true); }
    if (!cd.empty()) x += " cdata-section-elements=\"" + cd + "\"";
    x += "/><xsl:template match=\"@*|node()\"><xsl:copy><xsl:apply-templates select=\"@*|node()\"/></xsl:copy></xsl:template>";
    if (c.variant == "construct")
        x += "<xsl:template match=\"comment()\"><xsl:comment><xsl:value-of select=\".\"/></xsl:comment></xsl:template>"
             "<xsl:template match=\"processing-instruction()\"><xsl:processing-instruction name=\"{name()}\"><xsl:value-of select=\".\"/></xsl:processing-instruction></xsl:template>"
             "<xsl:template match=\"text()\"><xsl:value-of select=\".\"/></xsl:template>";
    x += "</xsl:stylesheet>";
    return x;
}

Out runCfg(const Script& s, const Model& m, const Cfg& c, const SinkFault& fault) {
    Out o; SimSink sink; sink.reset(fault);
    SimMemoryManager mm; mm.budget = c.ser == "pipeline" ? 16 * MEM_BUDGET : MEM_BUDGET;    // a runaway allocation becomes an ordinary refused allocation instead of eating the machine
    if (c.ser == "pipeline") {
        if (!xml10Clean(m)) { o.skipped = true; return o; }
        std::string doc = sourceDocument(m), xsl = stylesheetFor(s, m, c);
        guarded(o, [&] {
            XalanTransformer T(mm);
            SimIStream dis(doc, SrcFault()), sis(xsl, SrcFault());
            XSLTInputSource din(&dis, mm), sin(&sis, mm);
            din.setSystemId(XalanDOMString((std::string(SIM_BASE) + "doc.xml").c_str(), mm).c_str()); sin.setSystemId(XalanDOMString((std::string(SIM_BASE) + "ss.xsl").c_str(), mm).c_str());
            int st;
            if (c.form == "stream") { SinkXalanOutputStream os(sink, mm, c.b, c.t); XalanOutputStreamPrintWriter pw(os); XSLTResultTarget rt(&pw, mm); st = T.transform(din, sin, rt); o.writesAtEnd = sink.writes; o.flushesAtEnd = sink.flushes; }
            else { st = T.transform(din, sin, &sink, sinkCallback, sinkFlushCallback); o.writesAtEnd = sink.writes; o.flushesAtEnd = sink.flushes; }
            if (st != 0) { o.threw = true; o.excType = "status"; const char* e = T.getLastError(); o.excMsg = e ? e : ""; }
        });
    } else {
        XalanDOMString version(s.version.c_str(), mm), encoding(s.encoding.c_str(), mm), empty(mm), dtSys(s.dtSys.c_str(), mm), dtPub(s.dtPub.c_str(), mm), standalone(s.standalone.c_str(), mm); const bool xmlDecl = !s.omitDecl;
        SinkXalanOutputStream os(sink, mm, c.b, c.t);
        XalanOutputStreamPrintWriter pw(os);
        if (!c.prelude.empty()) {
            // the caller's stream and writer have served another document, in another encoding, before: nothing of that may show
            Out po; sink.reset(SinkFault());
            guarded(po, [&] {
                XalanDOMString penc(c.prelude.c_str(), mm), v10("1.0", mm);
                FormatterListener* p0 = XalanXMLSerializerFactory::create(mm, pw, v10, false, 0, penc, empty, empty, empty, true, empty);
                struct Del { MemoryManager& m; FormatterListener* p; ~Del() { if (p) XalanDestroy(m, p); } } del{ mm, p0 };
                static const XMLCh cdataType[] = { 'C', 'D', 'A', 'T', 'A', 0 };
                const XS nm = ascii("prelude"), an = ascii("a"), tx = { 0xE9, 0xA7, 0xA3, ' ', 0x20AC, 0x4E2D, 0xA0, 0xFF, 'x', 0x80, 0x416 };
                p0->startDocument(); AttributeListImpl al(mm); al.addAttribute(an.c_str(), cdataType, tx.c_str()); p0->startElement(nm.c_str(), al);
                p0->characters(tx.c_str(), (FormatterListener::size_type)tx.size()); p0->comment(tx.c_str()); p0->endElement(nm.c_str()); p0->endDocument(); pw.flush();
            });
            if (po.threw) { o.skipped = true; return o; }      // the prelude encoding is not available here
            sink.reset(fault);
        }
        if (c.ser == "legacy") {
            guarded(o, [&] {
                FormatterToXML fx(pw, version, false, 0, encoding, empty, dtSys, dtPub, xmlDecl, standalone, FormatterListener::OUTPUT_METHOD_XML, true, mm);
                feedAll(fx, pw, m, c, o, mm);
                o.writesAtEnd = sink.writes; o.flushesAtEnd = sink.flushes;
            });
        } else {
            FormatterListener* fl = nullptr;
            guarded(o, [&] {
                fl = XalanXMLSerializerFactory::create(mm, pw, version, false, 0, encoding, empty, dtSys, dtPub, xmlDecl, standalone);
                feedAll(*fl, pw, m, c, o, mm);
                o.writesAtEnd = sink.writes; o.flushesAtEnd = sink.flushes;
            });
            if (fl) XalanDestroy(mm, fl);
        }
        // ~XalanOutputStreamPrintWriter flushes: with a dead sink that must not escape
    }
    o.badFrees = mm.foreignFrees + mm.doubleFrees; o.refused = mm.refused;
    o.bytes.swap(sink.bytes); o.chunks.swap(sink.chunks); o.writes = sink.writes; o.flushes = sink.flushes; o.fired = sink.faultsFired; o.writesAfterFault = sink.writesAfterFault;
    return o;
}

// =================================================================== the independent parser
struct Parsed { bool ok = false; std::string err; std::vector<Node> nodes; };

struct Recorder : public xercesc::DefaultHandler {
    Parsed* p = nullptr;
    void text(const XMLCh* c, XMLSize_t n) { if (!n) return; if (!p->nodes.empty() && p->nodes.back().k == N_T) p->nodes.back().text.append(c, n); else { Node x; x.k = N_T; x.text.assign(c, n); p->nodes.push_back(x); } }
    void startElement(const XMLCh* const uri, const XMLCh* const, const XMLCh* const qname, const xercesc::Attributes& at) override {
        Node x; x.k = N_SE; x.qname = qname; x.uri = uri ? uri : u"";
        for (XMLSize_t i = 0; i < at.getLength(); ++i) { AttrV v; v.uri = at.getURI(i) ? at.getURI(i) : u""; v.value = at.getValue(i); x.attrs[at.getQName(i)] = v; }
        p->nodes.push_back(x);
    }
    void endElement(const XMLCh* const, const XMLCh* const, const XMLCh* const qname) override { Node x; x.k = N_EE; x.qname = qname; p->nodes.push_back(x); }
    void characters(const XMLCh* const c, const XMLSize_t n) override { text(c, n); }
    void ignorableWhitespace(const XMLCh* const c, const XMLSize_t n) override { text(c, n); }
    void comment(const XMLCh* const c, const XMLSize_t n) override { Node x; x.k = N_C; x.text.assign(c, n); p->nodes.push_back(x); }
    void processingInstruction(const XMLCh* const target, const XMLCh* const data) override { Node x; x.k = N_PI; x.qname = target; x.text = data ? data : u""; p->nodes.push_back(x); }
    void fatalError(const xercesc::SAXParseException& e) override { throw e; }
    void error(const xercesc::SAXParseException& e) override { throw e; }
    void warning(const xercesc::SAXParseException&) override {}
};

Parsed parseBytes(const std::string& bytes) {
    static xercesc::SAX2XMLReader* reader = nullptr; static Recorder rec;
    using xercesc::XMLUni;
    // A document without an XML declaration is parsed by a reader of its own: a reused Xerces reader keeps treating U+2028 / U+0085 as line
    // ends after an XML 1.1 document when the next document does not say which version it is (seen with omit-xml-declaration; harness matter).
    const bool noDecl = !(bytes.size() > 6 && bytes.compare(0, 5, "<?xml") == 0 && (bytes[5] == ' ' || bytes[5] == '\t' || bytes[5] == '\n' || bytes[5] == '\r'));   // "<?xml-stylesheet" is no declaration
    if (noDecl && reader) { delete reader; reader = nullptr; }
    if (!reader) {
        reader = xercesc::XMLReaderFactory::createXMLReader();
        reader->setFeature(XMLUni::fgSAX2CoreNameSpaces, true); reader->setFeature(XMLUni::fgSAX2CoreNameSpacePrefixes, true);
        reader->setFeature(XMLUni::fgSAX2CoreValidation, false); reader->setFeature(XMLUni::fgXercesDynamic, false);
        reader->setFeature(XMLUni::fgXercesSchema, false); reader->setFeature(XMLUni::fgXercesLoadExternalDTD, false);
        reader->setFeature(XMLUni::fgXercesDisableDefaultEntityResolution, true);
        reader->setContentHandler(&rec); reader->setErrorHandler(&rec); reader->setLexicalHandler(&rec);
    }
    Parsed p; rec.p = &p;
    auto fail = [&](const std::string& m) { p.ok = false; p.err = m; delete reader; reader = nullptr; };
    try {
        xercesc::MemBufInputSource src((const XMLByte*)bytes.data(), bytes.size(), "sim-output", false);
        reader->parse(src); p.ok = true;
        if (noDecl) { delete reader; reader = nullptr; }
    }
    catch (const xercesc::SAXParseException& e) { fail(toUtf8(XalanDOMString(e.getMessage()))); }
    catch (const xercesc::SAXException& e) { fail(toUtf8(XalanDOMString(e.getMessage()))); }
    catch (const xercesc::XMLException& e) { fail(toUtf8(XalanDOMString(e.getMessage()))); }
    catch (const xercesc::OutOfMemoryException&) { fail("out of memory"); }
    catch (...) { fail("unknown exception from the parser"); }
    rec.p = nullptr;
    return p;
}

// =================================================================== comparison
struct Diff { bool any = false; size_t idx = 0; std::string construct, what; };
std::string kindName(NK k) { switch (k) { case N_SE: return "start-tag"; case N_EE: return "end-tag"; case N_T: return "text"; case N_C: return "comment"; default: return "processing-instruction"; } }
std::string textDiff(const XS& e, const XS& a) {
    size_t i = 0; while (i < e.size() && i < a.size() && e[i] == a[i]) ++i;
    size_t from = i > 6 ? i - 6 : 0;
    return "at unit " + std::to_string(i) + " of " + std::to_string(e.size()) + "/" + std::to_string(a.size()) + ": expected \"" + show(e, from, 20) + "\" got \"" + show(a, from, 20) + "\"";
}
bool nodeEq(const Node& e, const Node& a, bool cmpXmlns, Diff* d) {
    auto set = [&](const char* c, const std::string& w) { if (d) { d->any = true; d->construct = c; d->what = w; } return false; };
    if (e.k != a.k) return set(constructOfNode(e), "expected " + kindName(e.k) + " got " + kindName(a.k) + (a.k == N_T ? " \"" + show(a.text) + "\"" : (a.k == N_SE || a.k == N_EE) ? " " + show(a.qname) : ""));
    switch (e.k) {
    case N_SE: {
        if (e.qname != a.qname) return set("name", "element name: expected " + show(e.qname) + " got " + show(a.qname));
        if (e.uri != a.uri) return set("name", "namespace of " + show(e.qname) + ": expected \"" + show(e.uri) + "\" got \"" + show(a.uri) + "\"");
        auto ei = e.attrs.begin(); auto ai = a.attrs.begin();
        for (;;) {
            while (!cmpXmlns && ei != e.attrs.end() && isXmlnsAttr(ei->first)) ++ei;
            while (!cmpXmlns && ai != a.attrs.end() && isXmlnsAttr(ai->first)) ++ai;
            if (ei == e.attrs.end() && ai == a.attrs.end()) break;
            if (ei == e.attrs.end()) return set("attr", "unexpected attribute " + show(ai->first) + " on " + show(e.qname));
            if (ai == a.attrs.end() || ei->first < ai->first) return set("attr", "attribute " + show(ei->first) + " of " + show(e.qname) + " is missing");
            if (ai->first < ei->first) return set("attr", "unexpected attribute " + show(ai->first) + " on " + show(e.qname));
            if (ei->second.value != ai->second.value) return set("attr", "value of attribute " + show(ei->first) + " " + textDiff(ei->second.value, ai->second.value));
            if (!isXmlnsAttr(ei->first) && ei->second.uri != ai->second.uri) return set("attr", "namespace of attribute " + show(ei->first));
            ++ei; ++ai;
        }
        return true; }
    case N_EE: return e.qname == a.qname ? true : set("name", "end tag: expected " + show(e.qname) + " got " + show(a.qname));
    case N_T: return e.text == a.text ? true : set(e.viaCdata ? "cdata" : "text", std::string(e.viaCdata ? "text (written through cdata()) " : "text ") + textDiff(e.text, a.text));
    case N_C: return e.text == a.text ? true : set("comment", "comment " + textDiff(e.text, a.text));
    default:
        if (e.qname != a.qname) return set("pi", "PI target: expected " + show(e.qname) + " got " + show(a.qname));
        return e.text == a.text ? true : set("pi", "PI data " + textDiff(e.text, a.text));
    }
}
Diff compareTrees(const std::vector<Node>& e, const std::vector<Node>& a, bool cmpXmlns) {
    Diff d; size_t n = std::min(e.size(), a.size());
    for (size_t i = 0; i < n; ++i) if (!nodeEq(e[i], a[i], cmpXmlns, &d)) { d.idx = i; d.what = "node " + std::to_string(i) + ": " + d.what; return d; }
    if (e.size() > a.size()) { d.any = true; d.idx = n; d.construct = constructOfNode(e[n]); d.what = "node " + std::to_string(n) + ": expected " + kindName(e[n].k) + ", document ended"; }
    else if (a.size() > e.size()) { d.any = true; d.idx = n; d.construct = "extra"; d.what = "node " + std::to_string(n) + ": unexpected " + kindName(a[n].k); }
    return d;
}
// for a document that stopped parsing: the first expected node that did not arrive intact
std::string culprit(const std::vector<Node>& e, const std::vector<Node>& a, bool cmpXmlns) {
    size_t i = 0; while (i < e.size() && i < a.size() && nodeEq(e[i], a[i], cmpXmlns, nullptr)) ++i;
    if (i >= e.size()) return "structure";
    return constructOfNode(e[i], true);
}

// =================================================================== evaluation context of one script
struct Finding { std::string cls, extra, detail; };   // extra: part of the signature that is not a character class (fault kind, ...)
typedef std::unique_ptr<Finding> FindingP;
FindingP finding(const std::string& c, const std::string& x, const std::string& d) { FindingP f(new Finding); f->cls = c; f->extra = x; f->detail = d; return f; }
std::string baseClass(const std::string& c) { return c.compare(0, 15, "error-expected:") == 0 ? c.substr(15) : c; }

uint64_t g_serializerRuns = 0, g_parses = 0;
struct Prof { const char* n; uint64_t& acc; timespec t0; Prof(const char* name, uint64_t& a) : n(name), acc(a) { clock_gettime(CLOCK_MONOTONIC, &t0); } ~Prof() { timespec t1; clock_gettime(CLOCK_MONOTONIC, &t1); acc += (uint64_t)((t1.tv_sec - t0.tv_sec) * 1000000000LL + (t1.tv_nsec - t0.tv_nsec)); } };
uint64_t g_nsRun = 0, g_nsParse = 0, g_nsModel = 0, g_nsPipe = 0;

struct Eval {
    const Script& s; Model m; EncInfo& enc; bool v11; Repr repr;
    std::map<std::string, Out> outs; std::map<std::string, Parsed> parsed;
    explicit Eval(const Script& sc) : s(sc), m(buildModel(sc)), enc(encInfo(sc.encoding)), v11(sc.version == "1.1"), repr(representable(m, v11, enc)) {}
    const Out& out(const Cfg& c) { std::string k = c.key(false); auto it = outs.find(k); if (it != outs.end()) return it->second; ++g_serializerRuns; Prof pf("run", c.ser == "pipeline" ? g_nsPipe : g_nsRun); return outs[k] = runCfg(s, m, c, SinkFault()); }
    const Parsed& parse(const Cfg& c) {
        const Out& o = out(c); std::string k = c.key(false); auto it = parsed.find(k); if (it != parsed.end()) return it->second;
        for (auto& kv : outs) if (kv.first != k && kv.second.bytes == o.bytes && parsed.count(kv.first)) return parsed[k] = parsed[kv.first];
        ++g_parses; Prof pf("parse", g_nsParse); return parsed[k] = parseBytes(o.bytes);
    }
    std::string family(const Cfg& c) const { return c.ser == "factory" ? enc.family : c.ser; }
};

std::string excName(const Out& o) { return o.excType + (o.excMsg.empty() ? "" : ": " + o.excMsg.substr(0, 160)); }
bool runaway(const Out& o) { return o.threw && o.refused > 0; }
FindingP runawayFinding(const Out& o, const Cfg& c) { return finding("runaway-allocation", "", "[" + c.key() + "] asked for more than " + std::to_string(MEM_BUDGET >> 20) + " MiB while writing a document of a few kilobytes (refused; seen as " + o.excType + ")"); }

// oracles 1 and 2 on one fault-free configuration of the xml output method (factory product, or the whole pipeline)
FindingP probeSingle(Eval& ev, const Cfg& c) {
    const Out& o = ev.out(c); if (o.skipped) return nullptr;
    bool cmpXmlns = c.ser != "pipeline";
    if (o.badFrees) return finding("bad-free", "", "[" + c.key() + "] released memory through the manager that it did not own (foreign or double free)");
    if (runaway(o)) return runawayFinding(o, c);
    if (o.threw) {
        if (!ev.repr.ok) return nullptr;
        return finding("spurious-error", "", "the tree is representable in XML " + ev.s.version + " / " + ev.s.encoding + " but serialization failed with " + excName(o));
    }
    const Parsed& p = ev.parse(c);
    std::string pre = ev.repr.ok ? "" : "error-expected:";
    std::string why = ev.repr.ok ? "" : " (the tree is not representable: " + ev.repr.why + "; an error was the acceptable outcome)";
    if (!p.ok) return finding(pre + "not-well-formed", "", "output of " + std::to_string(o.bytes.size()) + " bytes is not well-formed: " + p.err + " (first expected node that did not arrive: " + culprit(ev.m.exp, p.nodes, cmpXmlns) + ")" + why);
    Diff d = compareTrees(ev.m.exp, p.nodes, cmpXmlns);
    if (d.any) return finding(pre + "tree-differs", "", d.what + why);
    return nullptr;
}
// oracle 3
FindingP probeKnob(Eval& ev, const Cfg& a, const Cfg& b) {
    const Out& x = ev.out(a); const Out& y = ev.out(b); if (x.skipped || y.skipped || runaway(x) || runaway(y)) return nullptr;
    if (x.threw != y.threw) return finding("knob-dependent", "outcome", "[" + a.key() + "] " + (x.threw ? "failed with " + excName(x) : "succeeded") + " but [" + b.key() + "] " + (y.threw ? "failed with " + excName(y) : "succeeded"));
    if (x.threw) return nullptr;
    if (x.bytes != y.bytes) { size_t i = 0; while (i < x.bytes.size() && i < y.bytes.size() && x.bytes[i] == y.bytes[i]) ++i;
        return finding("knob-dependent", "bytes", "output differs between [" + a.key() + "] (" + std::to_string(x.bytes.size()) + " bytes) and [" + b.key() + "] (" + std::to_string(y.bytes.size()) + " bytes), first at byte " + std::to_string(i)); }
    return nullptr;
}
// oracle 4: wherever the factory product round-trips, FormatterToXML must give the same tree
FindingP probeAgree(Eval& ev, const Cfg& fac, const Cfg& leg) {
    const Out& y = ev.out(leg);
    if (y.badFrees) return finding("bad-free", "", "[" + leg.key() + "] released memory through the manager that it did not own (foreign or double free)");
    if (runaway(y)) return runawayFinding(y, leg);
    const Out& x = ev.out(fac); if (x.threw) return nullptr;
    const Parsed& p = ev.parse(fac); if (!p.ok || compareTrees(ev.m.exp, p.nodes, true).any) return nullptr;    // the factory product itself is wrong: oracle 1 reports that
    // the symptom is part of the signature: the legacy serializer goes wrong in several unrelated ways for the same class of character
    if (y.threw) return finding("serializers-disagree", "error", "the factory product round-trips, FormatterToXML failed with " + excName(y));
    const Parsed& q = ev.parse(leg);
    if (!q.ok) return finding("serializers-disagree", q.err.find("]]>") != std::string::npos ? "nwf-cdata-end" : q.err.find("character reference") != std::string::npos ? "nwf-charref" : q.err.find("nvalid character") != std::string::npos ? "nwf-char" : "nwf", "the factory product round-trips, FormatterToXML output (" + std::to_string(y.bytes.size()) + " bytes) is not well-formed: " + q.err + " (first node that did not arrive: " + culprit(p.nodes, q.nodes, true) + ")");
    Diff d = compareTrees(p.nodes, q.nodes, true); if (!d.any) return nullptr;
    return finding("serializers-disagree", "tree", "factory product vs FormatterToXML: " + d.what);
}
// oracle 5
FindingP probeFault(Eval& ev, const Cfg& c, Out* faultedOut = nullptr) {
    Cfg base = withoutFault(c); const Out& b = ev.out(base); if (b.skipped || b.threw) return nullptr;
    SinkFault f = c.fault; uint64_t span = f.kind == "flushfail" ? b.flushesAtEnd : b.writesAtEnd; if (!span) return nullptr;
    f.at = 1 + (f.at ? (f.at - 1) % span : 0);
    ++g_serializerRuns; Out o = runCfg(ev.s, ev.m, c, f); if (faultedOut) *faultedOut = o;
    if (!o.fired) return nullptr;
    std::string id = f.kind + "@" + std::to_string(f.at) + " of " + std::to_string(span);
    if (!o.threw) return finding("sink-fault-mishandled", f.kind + ":swallowed", "sink fault " + id + " fired but the caller saw no error");
    if (o.bytes.size() > b.bytes.size() || b.bytes.compare(0, o.bytes.size(), o.bytes) != 0) return finding("sink-fault-mishandled", f.kind + ":not-prefix", "bytes accepted before sink fault " + id + " (" + std::to_string(o.bytes.size()) + ") are not a prefix of the fault-free output");
    ++g_serializerRuns; Out again = runCfg(ev.s, ev.m, base, SinkFault());
    if (again.threw || again.bytes != b.bytes) return finding("sink-fault-mishandled", f.kind + ":recovery-differs", "a new serializer on a new sink after sink fault " + id + " did not reproduce the fault-free output");
    return nullptr;
}

// =================================================================== signatures and in-process minimisation
// The signature names what is *essential* for the finding: (construct, character class) pairs that cannot be replaced by
// plain ASCII without losing it, and the XML version only if the other version does not show it.  It is computed from the
// script alone, so the full plan and every reduced plan of the same finding get the same signature.
enum CK { K_NAME, K_ATTR, K_TEXT, K_CDATA, K_LITERAL, K_N };   // literal: comment and PI data, written verbatim by one routine
static const char* const CK_NAME[K_N] = { "name", "attr", "text", "cdata", "literal" };
template <class F> void forEachString(Script& s, const std::vector<bool>& evCdata, F fn) {
    for (auto& n : s.cdataElems) fn(n, K_NAME);
    for (size_t i = 0; i < s.ev.size(); ++i) {
        EvS& e = s.ev[i];
        if (e.kind == "startElement") { fn(e.name, K_NAME); for (auto& a : e.attrs) { fn(a.name, K_NAME); fn(a.value, K_ATTR); } }
        else if (e.kind == "characters" || e.kind == "ignorableWhitespace") fn(e.text, i < evCdata.size() && evCdata[i] ? K_CDATA : K_TEXT);
        else if (e.kind == "cdata") fn(e.text, K_CDATA);
        else if (e.kind == "comment") fn(e.text, K_LITERAL);
        else if (e.kind == "pi") { fn(e.target, K_NAME); fn(e.text, K_LITERAL); }
    }
}
struct PairMask { uint32_t m[K_N] = { 0, 0, 0, 0, 0 }; };
PairMask pairsOf(const Script& s, const std::vector<bool>& evCdata) {
    PairMask pm; Script& w = const_cast<Script&>(s); EncInfo& enc = encInfo(s.encoding); bool v11 = s.version == "1.1";
    forEachString(w, evCdata, [&](XS& x, CK k) { pm.m[k] |= sigMask(x, enc, v11); });
    return pm;
}
std::string pairNames(const PairMask& pm, bool withConstruct) {
    std::string r;
    // characters XML forbids everywhere (U+0000, lone surrogates, U+FFFE/FFFF) are named without the construct they sit in
    const uint32_t everywhere = (1u << S_NUL) | (1u << S_SURR) | (1u << S_NONCHAR);
    // a lone surrogate makes the whole tree unrepresentable: whatever else the reduction could not remove (its budget is finite) is beside the point
    { uint32_t u = 0; for (int k = 0; k < K_N; ++k) u |= pm.m[k]; if (u & (1u << S_SURR)) return "surrogate"; }
    if (withConstruct) {
        for (int k = 0; k < K_N; ++k) for (int c = 1; c < S_N; ++c) if ((pm.m[k] & (1u << c)) && !(everywhere & (1u << c))) { if (!r.empty()) r += "+"; r += std::string(CK_NAME[k]) + "." + SCLS_NAME[c]; }
        uint32_t u = 0; for (int k = 0; k < K_N; ++k) u |= pm.m[k]; for (int c = 1; c < S_N; ++c) if (u & everywhere & (1u << c)) { if (!r.empty()) r += "+"; r += SCLS_NAME[c]; }
    }
    else { uint32_t u = 0; for (int k = 0; k < K_N; ++k) u |= pm.m[k]; for (int c = 1; c < S_N; ++c) if (u & (1u << c)) { if (!r.empty()) r += "+"; r += SCLS_NAME[c]; } }
    return r.empty() ? "any" : r;
}
Script replacePair(const Script& s, const std::vector<bool>& evCdata, int k, int c) {
    Script r = s; EncInfo& enc = encInfo(s.encoding); bool v11 = s.version == "1.1";
    forEachString(r, evCdata, [&](XS& x, CK kk) { if (kk == k) x = replaceSigClass(x, c, enc, v11, kk == K_NAME); });
    return r;
}

typedef std::function<FindingP(Eval&)> Probe;
struct Sig { bool any = false; std::string cls, ver, pairs, extra, detail; Script reduced; std::string str() const { return cls + "|" + ver + "|" + pairs + "|" + extra; } };

uint64_t g_evals = 0;
FindingP probeOn(const Script& s, const Probe& pr) { ++g_evals; Eval ev(s); return pr(ev); }

Sig sigOf(const Script& s, const Probe& pr, bool wantClasses) {
    Sig r; FindingP f0 = probeOn(s, pr); if (!f0) return r;
    r.any = true; r.cls = f0->cls; r.extra = f0->extra; r.detail = f0->detail; r.ver = s.version; r.reduced = s;
    const std::string base = baseClass(f0->cls);
    auto same = [&](const FindingP& f) { return f && baseClass(f->cls) == base && f->extra == r.extra; };
    if (!wantClasses) {     // only the version question
        Script o = s; o.version = s.version == "1.1" ? "1.0" : "1.1"; if (same(probeOn(o, pr))) { r.ver = "1.x"; r.reduced.version = "1.0"; }
        return r;
    }
    std::vector<bool> evCdata = buildModel(r.reduced).evCdata;     // replacing characters does not change which text goes through cdata()
    PairMask pm = pairsOf(r.reduced, evCdata); bool changed = false;
    auto reduce = [&]() {      // to a fixpoint: a pair that was needed while others were still present may not be needed afterwards
        for (int pass = 0; pass < 4; ++pass) {
            bool progress = false;
            for (int k = 0; k < K_N; ++k) for (int c = 1; c < S_N; ++c) {
                if (!(pm.m[k] & (1u << c))) continue;
                Script cand = replacePair(r.reduced, evCdata, k, c);
                if (same(probeOn(cand, pr))) { r.reduced = cand; pm.m[k] &= ~(1u << c); changed = progress = true; }
            }
            if (!progress) break;
        }
    };
    reduce();
    // is the version essential?  (asked of the reduced script, where nothing unrelated can mask the answer)
    { Script o = r.reduced; o.version = s.version == "1.1" ? "1.0" : "1.1";
      if (same(probeOn(o, pr))) { r.ver = "1.x"; if (r.reduced.version != "1.0") { r.reduced.version = "1.0"; changed = true; pm = pairsOf(r.reduced, evCdata); reduce(); } } }
    if (changed) { FindingP fin = probeOn(r.reduced, pr); if (fin) { r.cls = fin->cls; r.detail = fin->detail; } }
    r.pairs = pairNames(pm, r.cls != "serializers-disagree");
    return r;
}

Script minimise(const Script& start, const Probe& pr, const std::string& want, bool wantClasses, int budget) {
    Script cur = start;
    auto ok = [&](const Script& c) { if (budget <= 0) return false; --budget; Sig g = sigOf(c, pr, wantClasses); return g.any && g.str() == want; };
    for (int pass = 0; pass < 3 && budget > 0; ++pass) {
        bool progress = false;
        for (size_t i = cur.ev.size(); i-- > 0 && budget > 0;) { Script c = cur; c.ev.erase(c.ev.begin() + i); if (ok(c)) { cur = c; progress = true; } }
        if (!progress) break;
    }
    for (size_t i = cur.cdataElems.size(); i-- > 0 && budget > 0;) { Script c = cur; c.cdataElems.erase(c.cdataElems.begin() + i); if (ok(c)) cur = c; }
    for (size_t e = 0; e < cur.ev.size(); ++e) for (size_t i = cur.ev[e].attrs.size(); i-- > 0 && budget > 0;) { Script c = cur; c.ev[e].attrs.erase(c.ev[e].attrs.begin() + i); if (ok(c)) cur = c; }
    // strings: ddmin over code points
    auto shrinkStr = [&](std::function<XS&(Script&)> get) {
        std::vector<uint32_t> v = decode(get(cur)); if (v.empty()) return;
        { Script c = cur; get(c).clear(); if (ok(c)) { cur = c; return; } }
        for (size_t chunk = (v.size() + 1) / 2; chunk >= 1 && budget > 0; chunk = (chunk + 1) / 2) {
            for (size_t i = 0; i < v.size() && v.size() > 1 && budget > 0;) {
                std::vector<uint32_t> w(v.begin(), v.begin() + i); if (i + chunk < v.size()) w.insert(w.end(), v.begin() + i + chunk, v.end());
                Script c = cur; get(c) = encode(w); if (ok(c)) { cur = c; v = w; } else i += chunk;
            }
            if (chunk == 1) break;
        }
    };
    for (size_t e = 0; e < cur.ev.size() && budget > 0; ++e) {
        shrinkStr([e](Script& s) -> XS& { return s.ev[e].text; });
        for (size_t a = 0; a < cur.ev[e].attrs.size() && budget > 0; ++a) shrinkStr([e, a](Script& s) -> XS& { return s.ev[e].attrs[a].value; });
        if (cur.ev[e].kind == "startElement" && cur.ev[e].name.size() > 1 && budget > 0) { Script c = cur; for (auto& n : c.cdataElems) if (n == c.ev[e].name) n = ascii("e"); c.ev[e].name = ascii("e"); if (ok(c)) cur = c; }
    }
    return cur;
}

// =================================================================== generator
struct TextGen {
    Rng& g; std::vector<int> classes; unsigned b, t; size_t est = 60; int budget = 3000; int bigLeft = 2; bool allowCRinLiteral = false;
    uint32_t pickOf(int k) {
        static const std::vector<uint32_t> T[C_N] = { { 'a', 'Z', '0', ' ', '-', '?', '\\', '~', '^', '`', '{' }, { '<', '&' }, { '>' }, { '"', '\'' }, { ']' }, { 9 }, { 10 }, { 13 }, { 1, 8, 0xB, 0xC, 0x1B, 0x1F }, { 0 },
            { 0x7F, 0x80, 0x84, 0x86, 0x9F }, { 0x85 }, { 0xA0, 0xE9, 0xFF, 0xD7 }, { 0x20AC, 0x4E2D, 0x3042, 0x416, 0x100, 0xFFFD, 0xD7FF, 0xE000, 0x2029 }, { 0x2028 }, { 0x10000, 0x1F600, 0x10FFFD, 0x20000 }, { 0xD800, 0xDBFF, 0xDC00, 0xDFFF }, { 0xFFFE, 0xFFFF } };
        // half of the Latin-1 picks and a third of the BMP picks come from whole blocks: single-byte code pages differ in a few positions only
        if (k == C_LATIN1 && g.chance(1, 2)) return 0xA0 + (uint32_t)g.below(0x60);
        if (k == C_BMP && g.chance(1, 3)) { static const std::vector<std::pair<uint32_t, uint32_t>> blocks = { { 0x100, 0x17F }, { 0x384, 0x3CE }, { 0x400, 0x45F }, { 0x2010, 0x2044 }, { 0x2100, 0x2199 }, { 0x3041, 0x30FE }, { 0x4E00, 0x4FFF }, { 0xFF01, 0xFF5E }, { 0x5D0, 0x5EA }, { 0xE01, 0xE3A }, { 0x152, 0x178 } }; auto b2 = g.pick(blocks); return b2.first + (uint32_t)g.below(b2.second - b2.first + 1); }
        return g.pick(T[k]);
    }
    void run(Json& a, uint32_t c, int64_t n) { if (n <= 0) return; if (n > budget) n = budget; if (n <= 0) return; Json o = Json::object(); o["c"] = (long long)c; o["n"] = (long long)n; a.push(o); budget -= (int)n; est += (size_t)n; }
    int64_t fillerLen() {
        if (bigLeft > 0 && budget > 700 && g.chance(1, 4)) {
            --bigLeft;
            static const std::vector<unsigned> fixed = { 512, 512, 512, 1024 };
            unsigned B = g.chance(2, 3) ? g.pick(fixed) : (g.chance(1, 2) ? b : t); if (B < 16 || B > 2048) B = 512;
            int64_t pos = (int64_t)(est % B), target = (int64_t)B + g.range(-4, 4);
            int64_t L = target - pos; while (L < 0) L += B; if (g.chance(1, 4) && L + B < 1400) L += B;
            return L;
        }
        return g.chance(1, 3) ? 0 : g.range(0, 8);
    }
    // literal: comment / PI data (no markup-significant restrictions needed: the interpreter repairs "--" and "?>")
    Json text(bool small, bool literal) {
        Json a = Json::array(); int segs = (int)g.range(1, small ? 2 : 4);
        for (int s = 0; s < segs && budget > 0; ++s) {
            uint32_t fc = 'a' + (uint32_t)g.below(26);
            if (g.chance(1, 8)) { int k = classes[g.below(classes.size())]; if (k == C_LATIN1 || k == C_BMP || k == C_SUPP) fc = pickOf(k); }
            run(a, fc, small && !g.chance(1, 6) ? g.range(0, 4) : fillerLen());
            int k = classes[g.below(classes.size())];
            if (literal && k == C_CR && !allowCRinLiteral) k = C_ASCII;
            int n = (int)g.range(1, 3);
            if (k == C_RSB) { static const std::vector<const char*> pats = { "]", "]]", "]]>", "]]>]]>", "]>", "]]]>", "]] >" }; std::string p = g.pick(pats); for (char c : p) a.push(Json((long long)(unsigned char)c)); budget -= (int)p.size(); est += p.size(); }
            else if (k == C_CR && g.chance(1, 3)) { a.push(Json(13LL)); a.push(Json(10LL)); budget -= 2; est += 2; }
            else for (int i = 0; i < n; ++i) { uint32_t c = pickOf(k); a.push(Json((long long)c)); budget -= c >= 0x10000 ? 2 : 1; est += 4; }
            if (g.chance(1, 3)) run(a, 'a' + (uint32_t)g.below(26), g.range(1, 3));
        }
        return a;
    }
};

struct C04 : public Driver {
    const char* property() const override { return "C04"; }
    void init() override { xalanInitOnce(); loadKnown(); signal(SIGALRM, [](int) { static const char m[] = "c04: run exceeded its 600 s safety net\n"; ssize_t r = write(2, m, sizeof m - 1); (void)r; _exit(80); }); }

    Json makePlan(uint64_t verifSeed, uint64_t run, const std::string& tier) override {
        uint64_t seed = runSeed(verifSeed, "C04", run);
        Rng root(seed); Rng g = root.fork("gen"), gk = root.fork("knobs"), gf = root.fork("faults");
        Json p = Json::object(); p["property"] = "C04"; p["run"] = (long long)run; p["seed"] = hex64(seed); p["tier"] = tier;
        if (run % 8 == 5) return genModePlan(p, root);
        const bool wantPipeline = run % 4 == 3;
        static const std::vector<std::pair<const char*, int>> encs = { { "UTF-8", 24 }, { "UTF-16", 15 }, { "ISO-8859-1", 15 }, { "US-ASCII", 10 }, { "windows-1252", 8 }, { "Shift_JIS", 7 }, { "ISO-8859-2", 5 }, { "GB18030", 5 }, { "UTF-16LE", 2 }, { "UTF-16BE", 2 }, { "x-sim-no-such-encoding", 4 }, { "utf-8", 3 }, { "ISO-8859-15", 4 }, { "windows-1251", 2 }, { "EUC-JP", 2 }, { "Big5", 2 }, { "ISO-8859-7", 2 }, { "KOI8-R", 1 }, { "ibm-943", 3 } };
        { int tot = 0; for (auto& e : encs) tot += e.second; int x = (int)g.below(tot); for (auto& e : encs) { if (x < e.second) { p["encoding"] = e.first; break; } x -= e.second; } }
        p["version"] = g.chance(35, 100) ? "1.1" : "1.0";
        // document type declaration, standalone, omitted XML declaration (the last only where a parser can still tell encoding and version)
        { Rng gd = root.fork("decl"); static const std::vector<std::string> sys = { "a.dtd", "http://example.org/dtd/x y.dtd", "it's.dtd", "d&e.dtd", "x<y.dtd", "q\"uote.dtd" }; static const std::vector<std::string> pub = { "-//SIM//DTD Doc 1.0//EN", "ISO/IEC 1:2:3", "pub'lic" };
          if (gd.chance(1, 6)) { p["doctype_system"] = gd.pick(sys); if (gd.chance(1, 2)) p["doctype_public"] = gd.pick(pub); }
          if (gd.chance(1, 8)) p["standalone"] = gd.chance(1, 2) ? "yes" : "no";
          if (gd.chance(1, 8) && p.str("version") == "1.0" && (p.str("encoding") == "UTF-8" || p.str("encoding") == "utf-8")) p["omit_decl"] = true; }
        // swarm: a few character classes per script
        static const std::vector<int> benign = { C_LTAMP, C_GT, C_QUOT, C_RSB, C_TAB, C_LF, C_CR, C_LATIN1, C_BMP, C_SUPP, C_C1, C_NEL, C_LSEP };
        static const std::vector<int> hostile = { C_C0, C_NUL, C_SURR, C_NONCHAR };
        std::vector<int> cls = { C_ASCII }; int nc = (int)g.range(1, 4); for (int i = 0; i < nc; ++i) cls.push_back(g.pick(benign));
        if (!wantPipeline && g.chance(15, 100)) cls.push_back(g.pick(hostile));
        static const std::vector<unsigned> bs = { 1, 2, 3, 5, 16, 64, 511, 512, 513, 1024, 4096 }, ts = { 1, 2, 3, 5, 16, 64, 511, 512, 513, 1024, 2048 };
        unsigned b0 = gk.pick(bs), t0 = gk.pick(ts);
        TextGen tg{ g, cls, b0, t0 }; tg.allowCRinLiteral = !wantPipeline && g.chance(1, 6);
        static const std::vector<const char*> names = { "a", "b", "c", "d", "item", "sec", "p1:a", "p1:q", "p2:b", "caf~{E9}", "~{3B1}~{3B2}", "~{4E2D}~{6587}", "p1:~{E9}l" };
        static const std::vector<const char*> anames = { "id", "k", "v", "p1:k", "p2:v", "~{E9}", "~{4E2D}", "long-attribute-name" };
        auto uriOf = [&](const std::string& pre) -> Json { if (pre == "p1") return Json(g.chance(1, 8) ? "urn:x-ns1?a=1&b=2" : "urn:x-ns1"); return Json(g.chance(1, 8) ? "urn:x-ns2/~{E9}" : "urn:x-ns2"); };
        Json events = Json::array(); std::vector<std::string> used; int nEvents = 0;
        auto ev = [&](const char* k) -> Json& { Json o = Json::object(); o["k"] = k; ++nEvents; return events.push(o); };
        auto misc = [&]() { if (g.chance(1, 2)) { Json& c = ev("comment"); c["text"] = tg.text(g.chance(2, 3), true); } else { Json& q = ev("pi"); static const std::vector<const char*> tn = { "t", "xml-stylesheet", "pi~{E9}", "~{4E2D}" }; q["target"] = g.pick(tn); q["text"] = tg.text(true, true); } };
        std::function<void(int)> element = [&](int depth) {
            std::string name = g.chance(1, 40) ? std::string("n") + std::string(520 + (size_t)g.below(8), 'x') : std::string(g.pick(names));
            Json& se = ev("startElement"); se["name"] = name; used.push_back(name); Json attrs = Json::array(); std::set<std::string> pres;
            { size_t c = name.find(':'); if (c != std::string::npos) pres.insert(name.substr(0, c)); }
            int na = (int)g.below(4); if (g.chance(1, 2)) na = 0;
            for (int i = 0; i < na; ++i) { std::string an = g.pick(anames); size_t c = an.find(':'); if (c != std::string::npos) pres.insert(an.substr(0, c)); Json o = Json::object(); o["n"] = an; o["v"] = tg.text(!g.chance(1, 5), false); attrs.push(o); tg.est += an.size() + 4; }
            for (auto& pr : pres) { Json o = Json::object(); o["n"] = "xmlns:" + pr; o["v"] = uriOf(pr); attrs.push(o); tg.est += 20; }
            if (g.chance(1, 10)) { Json o = Json::object(); o["n"] = "xmlns"; o["v"] = g.chance(1, 3) ? "" : "urn:x-def"; attrs.push(o); }
            se["attrs"] = attrs; tg.est += name.size() + 2;
            int kids = depth >= 3 ? (int)g.below(2) : (int)g.range(0, 4);
            for (int i = 0; i < kids && nEvents < 50 && tg.budget > 0; ++i) {
                unsigned r = (unsigned)g.below(100);
                if (r < 45) { Json& c = ev("characters"); c["text"] = tg.text(false, false); }
                else if (r < 68) element(depth + 1);
                else if (r < 80) misc();
                else if (r < 90) { Json& c = ev("cdata"); c["text"] = tg.text(false, false); }
                else if (r < 94) { Json& c = ev("ignorableWhitespace"); Json a = Json::array(); int n = (int)g.range(1, 4); static const std::vector<uint32_t> ws = { 32, 9, 10, 13 }; for (int j = 0; j < n; ++j) a.push(Json((long long)g.pick(ws))); c["text"] = a; }
                else ev("flush");
            }
            ev("endElement"); tg.est += name.size() + 3;
        };
        if (g.chance(1, 5)) misc();
        element(0);
        if (g.chance(1, 6)) misc();
        p["events"] = events;
        Json cd = Json::array(); if (g.chance(40, 100) && !used.empty()) { int n = (int)g.range(1, 2); std::set<std::string> c; for (int i = 0; i < n; ++i) c.insert(used[g.below(used.size())]); for (auto& s : c) cd.push(s); }
        p["cdata_elems"] = cd;
        // configurations
        Json cfgs = Json::array();
        auto flushList = [&]() { Json a = Json::array(); int n = gk.chance(1, 2) ? 0 : (int)gk.range(1, 3); for (int i = 0; i < n; ++i) a.push(Json((long long)gk.below(64))); return a; };
        auto cfg = [&](const char* ser, unsigned b, unsigned t) -> Json& { Json o = Json::object(); o["ser"] = ser; o["b"] = b; o["t"] = t; o["flushes"] = flushList(); return cfgs.push(o); };
        auto after = [&](Json& c, int a0, int a1) { Json a = Json::array(); a.push(a0); a.push(a1); c["after"] = a; };
        static const std::vector<std::pair<int, int>> afters = { { ']', '>' }, { ']', ']' }, { 0xDC00, 'x' }, { '>', '>' }, { 0, 0 }, { '<', '&' } };
        cfg("factory", b0, t0); { Json& c = cfg("factory", gk.pick(bs), gk.pick(ts)); after(c, ']', '>'); } { Json& c = cfg("factory", gk.pick(bs), gk.pick(ts)); auto a = gk.pick(afters); after(c, a.first, a.second); }
        { Json& c = cfg("legacy", gk.pick(bs), gk.pick(ts)); if (gk.chance(1, 2)) after(c, ']', '>'); } if (gk.chance(1, 2)) cfg("legacy", gk.pick(bs), gk.pick(ts));
        // the same stream and writer after they have served a document in another encoding
        { static const std::vector<const char*> pre = { "ISO-8859-1", "US-ASCII", "UTF-8", "UTF-16", "windows-1252", "Shift_JIS", "GB18030" };
          if (gk.chance(1, 3)) { Json& c = cfg(gk.chance(3, 4) ? "factory" : "legacy", gk.pick(bs), gk.pick(ts)); c["prelude"] = gk.pick(pre); } }
        if (wantPipeline) {
            const char* variant = gk.chance(1, 2) ? "copy" : "construct";
            Json& a = cfg("pipeline", 512, 1024); a["form"] = "callback"; a["variant"] = variant;
            Json& b = cfg("pipeline", gk.pick(bs), gk.pick(ts)); b["form"] = "stream"; b["variant"] = variant;
        }
        if (gf.chance(35, 100)) {
            Json o = cfgs.a[gf.below(cfgs.a.size())]; static const std::vector<const char*> kinds = { "throw", "short", "bad", "flushfail" };
            std::string kind = gf.pick(kinds); if (o.str("ser") == "pipeline" && o.str("form") == "callback" && kind == "flushfail") kind = "short";
            Json f = Json::object(); f["kind"] = kind; f["at"] = (long long)(1 + gf.below(gf.chance(1, 2) ? 4 : 4000)); o["fault"] = f; cfgs.push(o);
        }
        p["configs"] = cfgs;
        return p;
    }

    // ---------------------------------------------------------------------------------------------------------------
    std::set<std::string> tagsEmitted;
    std::set<std::string> minimisedAlready;   // (class|sig) this process has already minimised once, or that KNOWN_FINDINGS.txt lists
                                              // (the master does not gate those, so nobody would read the reduced script)
    void loadKnown() {
        const char* envp = getenv("VERIF_KNOWN_FINDINGS"); FILE* f = fopen(envp ? envp : "KNOWN_FINDINGS.txt", "r"); if (!f) return;
        char line[4096];
        while (fgets(line, sizeof line, f)) {
            std::string l = line; if (l.compare(0, 8, "finding:") != 0 || l.find("property=C04 ") == std::string::npos) continue;
            size_t c = l.find("class="), g = l.find("sig="); if (c == std::string::npos || g == std::string::npos) continue;
            std::string cls = l.substr(c + 6, l.find_first_of(" \t\n", c) - (c + 6)), sig = l.substr(g + 4, l.find_first_of(" \t\n", g) - (g + 4));
            minimisedAlready.insert(cls + "|" + sig);
        }
        fclose(f);
    }

    // neutralise what a finding needs (its essential construct/class pairs), so that the next, independent finding of the same script can show
    static Script neutralise(const Script& cur, const Sig& g) {
        Script r = cur; std::vector<bool> evCdata = buildModel(cur).evCdata; EncInfo& enc = encInfo(cur.encoding); bool v11 = cur.version == "1.1";
        PairMask pm = pairsOf(g.reduced, buildModel(g.reduced).evCdata);
        if (g.reduced.version != cur.version) for (int k = 0; k < K_N; ++k) if (pm.m[k] & ((1u << S_NONASCII) | (1u << S_UNENC) | (1u << S_LOSSYCAN) | (1u << S_UNENC_ASCII))) pm.m[k] |= (1u << S_C1) | (1u << S_NEL) | (1u << S_LSEP);   // classes that only exist under XML 1.1
        forEachString(r, evCdata, [&](XS& x, CK k) { for (int c = 1; c < S_N; ++c) if (pm.m[k] & (1u << c)) x = replaceSigClass(x, c, enc, v11, k == K_NAME); });
        return r;
    }
    Sig lastSig;
    // returns the family-independent part of the signature ("" if nothing was reported)
    std::string report(Result& res, Trace& tr, const Json& plan, const Script& s, const Probe& pr, const std::vector<Cfg>& involved, const std::string& family, bool wantClasses, const std::set<std::string>* suppress = nullptr) {
        lastSig = Sig();
        { FindingP f0 = probeOn(s, pr); if (!f0) return ""; if (f0->cls == "runaway-allocation" || f0->cls == "bad-free") wantClasses = false; }   // offsets matter there, not classes
        Sig g = sigOf(s, pr, wantClasses); if (!g.any) return "";
        lastSig = g;
        if (suppress && suppress->count(g.str())) { res.count("pipeline-finding-already-shown-by-factory-product"); tr.ev("same-as-factory " + g.str()); return ""; }
        // the three FormatterToXMLUnicode instantiations (and the pipeline on top of them) share the code that decides what is an error:
        // one signature for all of them keeps one root cause = one finding
        std::string fam = family; if (g.cls.compare(0, 14, "error-expected") == 0 && (fam == "utf8" || fam == "utf16" || fam == "other" || fam == "pipeline")) fam = "unicode";
        std::string sig = g.cls + ":" + fam + ":" + g.ver + (wantClasses ? ":" + g.pairs : "") + (g.extra.empty() ? "" : ":" + g.extra);
        tr.ev("violation " + sig);
        Json sub = Json::object(); Json cf = Json::array(); for (auto& c : involved) cf.push(c.raw); sub["configs"] = cf;
        std::string key = g.cls + "|" + sig;
        if (!plan.boolean("minimised") && !minimisedAlready.count(key)) {
            minimisedAlready.insert(key);
            bool pipeline = false; for (auto& c : involved) if (c.ser == "pipeline") pipeline = true;
            Script mn = minimise(g.reduced, pr, g.str(), wantClasses, pipeline || !wantClasses ? 60 : 150);
            Sig chk = sigOf(mn, pr, wantClasses);      // the reduced plan must carry the same signature when the master executes it
            if (chk.any && chk.str() == g.str()) { sub["events"] = eventsToJson(mn); sub["cdata_elems"] = cdataToJson(mn); sub["version"] = mn.version; sub["minimised"] = true; g.detail = chk.detail; }
            else if (getenv("C04_PROFILE")) fprintf(stderr, "PROF minimisation not idempotent for %s\n", sig.c_str());
        }
        res.violateSub(g.cls, sig, g.detail + " [" + s.encoding + ", XML " + s.version + "]", sub);
        return g.str();
    }

    // ---- "gen" mode: real stylesheet output.  A generated feature stylesheet (result tree fragments, disable-output-escaping,
    // cdata-section-elements, comments/PIs built by instructions, long names, ...) runs through the whole pipeline twice: to bytes through the
    // xml output method, and to a Xerces DOM through FormatterToXercesDOM, which does not involve the serializers.  The bytes must be well-formed
    // and parse back (with the independent Xerces parser) to the tree the DOM target holds.
    Json genModePlan(Json p, Rng& root) {
        Rng g = root.fork("genmode");
        p["kind"] = "gen";
        DocCfg dc; dc.maxNodes = (int)g.range(5, 40); dc.ns = g.chance(2, 3); dc.dtd = false; dc.longName = g.chance(1, 6); dc.exoticText = true;
        GenDoc d = genDoc(g, dc);
        auto allowed = featuresExcept({ "genid", "ns-axis", "doctype-node", "message", "bigfmt" });
        SSCfg sc; sc.on = pickFeatures(g, allowed, 2, 8); if (g.chance(1, 2)) sc.on.insert("doe"); if (g.chance(1, 2)) sc.on.insert("rtf"); if (g.chance(1, 3)) sc.on.insert("copyof"); if (g.chance(1, 3)) sc.on.insert("avt-ns"); if (g.chance(1, 3)) sc.on.insert("comment-pi"); if (g.chance(1, 4)) sc.on.insert("padsupp");
        static const std::vector<std::string> encs = { "UTF-8", "UTF-8", "UTF-16", "UTF-16", "ISO-8859-1", "US-ASCII", "windows-1252", "Shift_JIS" }; sc.encoding = g.pick(encs);
        sc.cdataElems = g.chance(1, 2); sc.useImport = g.chance(1, 5); sc.useInclude = g.chance(1, 6);
        static const std::vector<std::string> orders = { "doc", "rk", "rev" }; sc.order = g.pick(orders);
        GenSS ss = genStylesheet(g, sc, d);
        p["doc"] = d.xml; p["xsl"] = ss.xsl; p["encoding"] = sc.encoding; Json res = Json::object(); for (auto& kv : ss.resources) res[kv.first] = kv.second; p["resources"] = res;
        Json f = Json::array(); for (auto& x : ss.features) f.push(x); p["features"] = f;
        p["buf"] = (long long)g.pick(std::vector<int>{ 1, 3, 16, 511, 512, 513, 4096 }); p["tblock"] = (long long)g.pick(std::vector<int>{ 1, 7, 64, 1024 });
        return p;
    }
    void executeGen(const Json& plan, Result& res, Trace& tr) {
        XReq rq; rq.doc = plan.str("doc"); rq.xsl = plan.str("xsl"); rq.tgtForm = "writer"; rq.bufSize = (unsigned)plan.num("buf", 512); rq.tblock = (unsigned)plan.num("tblock", 1024);
        XformOut bytesOut, treeOut;
        { XEnv env; for (auto& kv : plan.at("resources").o) env.fs.put(kv.first, kv.second.s); SimSink sink; bytesOut = runTransform(env, rq, sink); }
        { XEnv env; for (auto& kv : plan.at("resources").o) env.fs.put(kv.first, kv.second.s); SimSink sink; XReq r2 = rq; r2.tgtForm = "xercesdom"; treeOut = runTransform(env, r2, sink); }
        res.count("scripts"); res.count("gen-mode"); res.count("enc:" + plan.str("encoding")); for (auto& f : plan.at("features").a) res.tag("gen|" + plan.str("encoding") + "|" + f.s);
        tr.ev("gen st=" + std::to_string(bytesOut.status) + "/" + std::to_string(treeOut.status) + " out=" + hex64(fnvStr(bytesOut.bytes)) + " tree=" + hex64(fnvStr(treeOut.canon)));
        if (getenv("C04_DUMP")) { FILE* f = fopen("/tmp/c04_gen_dump.bin", "wb"); if (f) { fwrite(bytesOut.bytes.data(), 1, bytesOut.bytes.size(), f); fclose(f); } }
        if (!bytesOut.ok() || !treeOut.ok()) { res.count("gen-mode:transformation-failed"); return; }
        // disable-output-escaping travels through trees as the marker PI <?Xalan raw?> (by design, so that a later serialization of the
        // tree can honour it); the serializers consume it, a DOM target keeps it: not part of the comparison
        { const std::string marker = "P{Xalan|raw}"; size_t q; while ((q = treeOut.canon.find(marker)) != std::string::npos) treeOut.canon.erase(q, marker.size()); }     // e.g. a character the encoding cannot put into a name: an error is the right outcome
        std::string err; std::string canon = canonFromBytes(bytesOut.bytes, &err);
        auto featureAt = [&](const std::string& c, size_t k) { size_t q = c.rfind("^f=", k); if (q == std::string::npos) return std::string("root"); size_t e = c.find(';', q); return c.substr(q + 3, e == std::string::npos ? 20 : e - q - 3); };
        if (canon.empty()) {
            // name the observation in which the parser stopped, using the tree target's canonical form as the map
            res.violate("not-well-formed", "not-well-formed:pipeline-gen:" + plan.str("encoding"), "the xml output of a generated stylesheet is not well-formed (" + err + "); features " + plan.at("features").dump() + "; first bytes: " + bytesOut.bytes.substr(0, 200));
            return;
        }
        if (canon != treeOut.canon) {
            size_t k = 0; while (k < canon.size() && k < treeOut.canon.size() && canon[k] == treeOut.canon[k]) ++k;
            res.violate("tree-differs", "tree-differs:pipeline-gen:" + featureAt(treeOut.canon, k), "bytes written by the xml output method parse to a different tree than FormatterToXercesDOM built for the same transformation, at offset " + std::to_string(k) + ": ..." + treeOut.canon.substr(k > 40 ? k - 40 : 0, 120) + "... vs parsed bytes ..." + canon.substr(k > 40 ? k - 40 : 0, 120) + "...");
        } else res.count("outcome:gen-roundtrip-ok");
    }

    void execute(const Json& plan, Result& res, Trace& tr) override {
        if (plan.str("kind") == "gen") { executeGen(plan, res, tr); return; }
        alarm(600);     // safety net only (a run takes milliseconds; a finding seen for the first time in this process, a second or two)
        Script s = scriptFromPlan(plan);
        std::vector<Cfg> cfgs; for (auto& c : plan.at("configs").a) if (c.t == Json::Obj) cfgs.push_back(cfgFromJson(c));
        Eval ev(s);
        tr.ev("script enc=" + s.encoding + " v=" + s.version + " feed=" + std::to_string(ev.m.feed.size()) + " nodes=" + std::to_string(ev.m.exp.size()) + " repr=" + (ev.repr.ok ? "yes" : "no"));
        res.count("scripts"); res.count("enc:" + s.encoding); res.count(ev.repr.ok ? "trees:representable" : "trees:unrepresentable"); res.count("version:" + s.version);
        // reach: (encoding, class, construct)
        { std::map<std::string, uint32_t> byC;
          for (auto& f : ev.m.feed) { switch (f.k) { case F_SE: byC["name"] |= classMask(f.name); for (auto& a : f.attrs) { byC["name"] |= classMask(a.name); byC["attr"] |= classMask(a.value); } break; case F_CH: case F_IW: byC["text"] |= classMask(f.text); break; case F_CD: byC["cdata"] |= classMask(f.text); break; case F_CM: byC["comment"] |= classMask(f.text); break; case F_PI: byC["pi"] |= classMask(f.text); byC["name"] |= classMask(f.target); break; default: break; } }
          // a tuple is reported the first time this process reaches it: the master unions the tags of all runs anyway
          for (auto& kv : byC) for (int k = 0; k < C_N; ++k) if (kv.second & (1u << k)) { std::string t = s.encoding + "|" + CLS_NAME[k] + "|" + kv.first; if (tagsEmitted.insert(t).second) res.tag(t); } }

        // ---- fault-free configurations: run, trace, probes
        std::vector<size_t> plain, faulted; for (size_t i = 0; i < cfgs.size(); ++i) (cfgs[i].fault.kind.empty() ? plain : faulted).push_back(i);
        for (size_t i : plain) {
            const Cfg& c = cfgs[i]; const Out& o = ev.out(c);
            if (o.skipped) { res.count("pipeline-skipped"); tr.ev("cfg " + c.key() + " skipped"); continue; }
            res.count("configs"); res.count("family:" + ev.family(c));
            tr.ev("cfg " + c.key() + " " + (o.threw ? "exc " + o.excType : "out " + hex64(fnvStr(o.bytes)) + " " + std::to_string(o.bytes.size())));
            if (getenv("C04_DUMP")) { std::string esc; for (unsigned char ch : o.bytes) { if (ch >= 0x20 && ch < 0x7F && ch != '\\') esc += (char)ch; else { char b[8]; snprintf(b, sizeof b, "\\x%02X", ch); esc += b; } } fprintf(stderr, "DUMP [%s] %s%s\n", c.key().c_str(), o.threw ? ("threw " + excName(o) + " after: ").c_str() : "", esc.c_str()); }
            res.count(o.threw ? "outcome:error" : "outcome:output");
            if (o.threw && !ev.repr.ok) res.count("outcome:error-on-unrepresentable");
            if (!c.flushes.empty() && !o.threw) res.count("probe:explicit-flush");
            // straddle probes, measured on what reached the sink
            if (!o.threw && c.ser == "factory") {
                if (ev.enc.family == "utf8") { for (size_t k = 0; k + 1 < o.chunks.size(); ++k) if (o.chunks[k] >= 509 && o.chunks[k] <= 511) { res.count("probe:straddle-512"); break; } }
                else if (ev.enc.family == "utf16") { size_t off = s.encoding.size() == 6 ? 2 : 0; for (size_t u = 511; off + 2 * u + 1 < o.bytes.size(); u += 512) { unsigned hi = (unsigned char)o.bytes[off + 2 * u + 1]; if (hi >= 0xD8 && hi <= 0xDB) { res.count("probe:straddle-512"); break; } } }
                else { for (size_t k = 0; k + 1 < o.chunks.size(); ++k) if (o.chunks[k] % 512 == 511 || o.chunks[k] % 512 == 510) { res.count("probe:straddle-512"); break; } }
            }
        }
        // oracle 3: knob independence inside each group; then oracles 1/2 once per distinct output of a group
        std::map<std::string, std::vector<size_t>> groups; for (size_t i : plain) if (!ev.out(cfgs[i]).skipped) groups[cfgs[i].group()].push_back(i);
        std::set<std::string> shownByFactory;
        for (auto& kv : groups) {
            const Cfg& first = cfgs[kv.second[0]]; std::vector<size_t> distinct = { kv.second[0] };
            for (size_t j = 1; j < kv.second.size(); ++j) {
                const Cfg& other = cfgs[kv.second[j]]; res.count("knob_pairs_compared");
                if (probeKnob(ev, first, other)) { distinct.push_back(kv.second[j]);
                    report(res, tr, plan, s, [first, other](Eval& e) { return probeKnob(e, first, other); }, { first, other }, ev.family(first), true); }
            }
            if (first.ser == "legacy") continue;     // FormatterToXML is judged by agreement with the factory product (oracle 4)
            for (size_t i : distinct) {
                const Cfg c = cfgs[i]; res.count("roundtrips_checked");
                FindingP f = probeSingle(ev, c);
                if (!f) { if (!ev.out(c).threw) res.count(ev.repr.ok ? "outcome:roundtrip-ok" : "outcome:roundtrip-ok-unrepresentable-by-model"); continue; }
                // one finding may hide another: report, neutralise its cause in a copy of the script, look again
                Script cur = s;
                for (int round = 0; round < 4; ++round) {
                    if (round) { Eval e2(cur); if (!probeSingle(e2, c)) break; res.count("further-findings-looked-at"); }
                    std::string k = report(res, tr, plan, cur, [c](Eval& e) { return probeSingle(e, c); }, { c }, ev.family(c), true, c.ser == "pipeline" ? &shownByFactory : nullptr);
                    if (c.ser == "factory" && !k.empty()) shownByFactory.insert(k);
                    if (!lastSig.any || lastSig.pairs == "any" || lastSig.pairs.empty()) break;
                    Script nxt = neutralise(cur, lastSig); if (eventsToJson(nxt).dump() == eventsToJson(cur).dump()) break; cur = nxt;
                }
            }
        }
        // oracle 4
        if (groups.count("factory") && groups.count("legacy")) {
            const Cfg fac = cfgs[groups["factory"][0]], leg = cfgs[groups["legacy"][0]]; res.count("agreement_checked");
            if (!probeAgree(ev, fac, leg)) res.count("outcome:serializers-agree");
            else {
                Script cur = s;
                for (int round = 0; round < 4; ++round) {
                    if (round) { Eval e2(cur); if (!probeAgree(e2, fac, leg)) break; res.count("further-findings-looked-at"); }
                    report(res, tr, plan, cur, [fac, leg](Eval& e) { return probeAgree(e, fac, leg); }, { fac, leg }, "legacy", true);
                    if (!lastSig.any || lastSig.pairs == "any" || lastSig.pairs.empty()) break;
                    Script nxt = neutralise(cur, lastSig); if (eventsToJson(nxt).dump() == eventsToJson(cur).dump()) break; cur = nxt;
                }
            }
        }
        // oracle 5
        for (size_t i : faulted) {
            const Cfg c = cfgs[i]; Out fo; FindingP f = probeFault(ev, c, &fo);
            const Out& base = ev.out(withoutFault(c)); if (base.skipped) { res.count("pipeline-skipped"); continue; }
            std::string kindName = c.fault.kind == "flushfail" ? "flush-fail" : "sink-" + c.fault.kind;
            tr.ev("fault " + c.key() + " fired=" + std::to_string(fo.fired) + " threw=" + (fo.threw ? fo.excType : "no") + " accepted=" + std::to_string(fo.bytes.size()) + " after=" + std::to_string(fo.writesAfterFault));
            if (fo.fired) { res.count("fault:" + kindName); res.count("faults_fired"); if (fo.writesAfterFault) res.count("writes-after-sink-fault"); if (fo.threw) res.count("fault-outcome:" + fo.excType); }
            else res.count("fault-not-reached");
            if (f) report(res, tr, plan, s, [c](Eval& e) { return probeFault(e, c); }, { c }, ev.family(c), false);
        }
        alarm(0);
        if (getenv("C04_PROFILE")) fprintf(stderr, "PROF run=%llu us factory/legacy=%llu pipeline=%llu parse=%llu runs=%llu parses=%llu evals=%llu\n", (unsigned long long)res.run, (unsigned long long)g_nsRun / 1000, (unsigned long long)g_nsPipe / 1000, (unsigned long long)g_nsParse / 1000, (unsigned long long)g_serializerRuns, (unsigned long long)g_parses, (unsigned long long)g_evals);
        g_nsRun = g_nsParse = g_nsPipe = 0;
        // (work counters are not reported: they depend on which findings this process has already reduced once)
        g_serializerRuns = g_parses = g_evals = 0;
    }
};

} // namespace

int main(int argc, char** argv) { C04 d; return driverMain(argc, argv, d); }
