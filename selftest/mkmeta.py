#!/usr/bin/env python3
"""Writes seeded/<name>/meta.json from the table below plus the recorded check results (seeded/<name>/results.txt)."""
import json, os, re
HERE = os.path.dirname(os.path.dirname(os.path.abspath(__file__)))
T = {
 'C03-A': ('C03', 'XalanUTF8Writer::write(XalanUnicodeChar): the 4-byte branch flushes only when fewer than 3 bytes remain', 'a supplementary character arriving when exactly 3 bytes are free in the 512-byte UTF-8 writer buffer (output offset 509 mod 512); the 4th byte overwrites the buffer position member and later output runs past the object'),
 'C03-B': ('C03', 'VariablesStack::reset() no longer clears the recursion guard stack', 'a transformation that fails while a lazily evaluated global variable is being evaluated (xsl:message terminate / run-time XPath error in its body), then the same compiled stylesheet on the same transformer: "circular variable definition" for ever after'),
 'C04-A': ('C04', 'XalanOutputStream::write(const XalanDOMChar*, n): writes larger than the buffer bypass it without flushing what is pending', 'UTF-16 output and a single run longer than the stream buffer (an element/attribute name or PI target of more than 512 units): bytes come out in the wrong order'),
 'C04-B': ('C04', 'XalanXMLSerializerBase::cdata() no longer resets m_nextIsRaw', 'a result tree fragment containing disable-output-escaping text copied into a cdata-section element, then any later text node: it is written unescaped'),
 'C05-A': ('C05', 'XalanSourceTreeContentHandler: m_inDTD reset moved from endDTD() to startDocument()', 'a DOCTYPE, a comment between it and the document element, and a stylesheet that looks at top-level comments: the native tree forms lose the comment, the Xerces-DOM forms keep it'),
 'C05-B': ('C05', 'XSLTEngineImpl: the PrefixResolver is no longer lent to a caller-supplied FormatterListener on the compiled-stylesheet path', 'compiled stylesheet x FormatterToXercesDOM / FormatterToSourceTree target x namespaced result nodes, compared as a tree ({ns}local), not as re-serialised text'),
 'C06-A': ('C06', 'CountersTable::reset() no longer clears the scratch list m_newFound', 'a transformation aborting inside xsl:number count-pattern evaluation of a preceding node (lazy global with xsl:message terminate), then the same compiled stylesheet and parsed source again: stale node in the counter cache (wrong numbers / use after free)'),
 'C06-B': ('C06', 'ICU collation: UCOL_CASE_FIRST only set when a case-order is requested', 'an earlier transformation sorting with lang="de" case-order="upper-first", then one on the same transformer with lang="de" and no case-order on keys differing only in case (cached collator keeps the attribute)'),
 'C07-A': ('C07', 'XercesLiaisonXalanDOMStringPool::get(): hash table searched before the mutex is taken', 'a thread-safe Xerces-DOM wrapper source shared by two threads, one pooling a new string while the other looks one up in the same bucket'),
 'C07-B': ('C07', 'XalanMap::find(): move-to-front of the found entry (const find writes)', 'a hash collision in a map of a shared compiled stylesheet / native source id table and two threads looking up keys of the same chain'),
 'C17-A': ('C17', 'CountersTable::countNode(): new counter filled by swap() instead of the reversing append', 'the first node numbered by an instruction in a sibling group is not the first counted node (numbering under xsl:sort / reverse order); later numbers in that group are wrong; document-order numbering unaffected'),
 'C17-B': ('C17', 'ElemNumber value= branch: std::rint instead of XPath round()', 'xsl:number value= with a value whose fraction is exactly .5 and an even integer part (0.5, 2.5, ...)'),
 'C19-A': ('C19', 'ReusableArenaAllocator::ownsObject(): the block where the forward scan stopped is never examined', 'at least 10 result tree fragments alive at the same time (arena block size): a fragment is reported as not owned and deleted with the global delete (manager memory freed elsewhere, members freed twice)'),
 'C19-B': ('C19', 'XObjectFactoryDefault::doReturnObject(): cache test size() > max instead of >=', 'more than 40 numbers/strings alive and released back to back (recursion deeper than 40) AND the one allocation that grows the cache inside ~XObjectPtr is the refused one: std::terminate'),
 'C20-A': ('C20', 'XalanVector range insert: tail shifted with std::copy instead of std::copy_backward', 'range insert in the middle without reallocation, more than 2n elements to the right, element type not trivially copyable'),
 'C03-C': ('C03', 'XalanParsedURI::resolve(): the shared helper that steps back one path segment decrements the index without the index > 0 guard', 'a relative reference starting with ../ (xsl:include/import/document()/PI href) resolved against a base URI that has a scheme but no "/" in its path (file:main.xsl, urn:..., http://host): index wraps, erase() in front of the buffer, SIGSEGV'),
 'C03-D': ('C03', 'NodeSorter::sort(): the RAII guards that clear the sort-key caches replaced by clear() calls after stable_sort', 'a transformation failing with a run-time error during sort-key evaluation after at least one key was cached, then a valid sort on the same transformer: stale keys (wrong order / out-of-bounds read)'),
 'C04-C': ('C04', 'XalanOutputStream::transcode(): the second pass continues at the offset of source units eaten instead of bytes filled', 'a chunk needing more than two output bytes per UTF-16 unit (GB18030 with Arabic/Hebrew/Thai, UTF-32, legacy FormatterToXML writing UTF-8 CJK): overwritten tail, NUL bytes, not well-formed'),
 'C04-D': ('C04', 'FormatterToXMLUnicode::writeCharacters(): ">" escaped only when the two previous characters of the same characters() call are "]]"', 'one text node delivered in two events that split "]]>" (e.g. two xsl:value-of): literal "]]>" in content; the two serializers disagree'),
 'C05-C': ('C05', 'XercesDOMParsedSource stores the system id un-normalised', 'parseSource(useXercesDOM) with a plain relative path as system id and a document() call that resolves to the source itself: the source is parsed a second time (node identity lost)'),
 'C05-D': ('C05', 'ICUFormatNumberFunctor: decimal-format cache hit by the address of the symbols object', 'two stylesheets given as input sources with different xsl:decimal-format symbols, one after the other on one transformer: the second formats with the first one\'s symbols (compiled stylesheets kept alive are fine)'),
 'C06-C': ('C06', 'NodeSorter::sort(): sort-key caches no longer cleared when key evaluation throws (same mechanism as C03-D, written independently)', 'abort during xsl:sort key evaluation, later sort on the same transformer'),
 'C06-D': ('C06', 'ICUFormatNumberFunctor: decimal-format cache hit by address (same mechanism as C05-D, written independently)', 'stylesheet with xsl:decimal-format destroyed, a different one compiled at the same address'),
 'C07-C': ('C07', 'Stylesheet::getDecimalFormatSymbols(): last found xsl:decimal-format remembered in a mutable pointer of the shared stylesheet', 'concurrent transformations calling format-number() with decimal formats of one shared compiled stylesheet'),
 'C07-D': ('C07', 'XercesDocumentWrapper::getElementById(): last node and wrapper remembered in mutable members', 'a thread-safe Xerces-DOM wrapper source with DTD ids shared by overlapping transformations that call id()'),
 'C17-C': ('C17', 'CountersTable::reset() no longer clears m_newFound (same mechanism as C06-A, written independently)', 'a numbering transformation failing inside countNode() (count pattern calling an unavailable function at one node), then numbering the same kept parsed source on the same transformer'),
 'C17-D': ('C17', 'ElemNumber::int2alphaCount(): the carry correction tests the new value instead of the previous column\'s', 'format token A or a with a number whose borrow ripples through two columns (676, 1352, ...)'),
 'C19-C': ('C19', 'XalanTransformer::installExternalFunction(): the replace path destroys the installed clone before cloning the new function', 'install a function, install again under the same name, and the clone() allocation of the second call is the refused one: dangling pointer in the function map (use after free / double free)'),
 'C19-D': ('C19', 'XercesDocumentWrapper::createWrapperNode(DocumentType): the wrapper is registered for deletion only when node mapping is on', 'parseSource(useXercesDOM) / Xerces wrapper with a document that has a DOCTYPE: one block per document never returned to the manager'),
 'C20-C': ('C20', 'XalanDOMString::append(const XalanDOMChar*, n): the "no buffer" branch taken for every empty string', 'a string emptied by an operation that keeps the terminator (resize(0), erase to nothing, ...) and then appended to through a XalanDOMChar*-based form'),
 'C20-D': ('C20', 'XalanList::splice(pos, list, it): pos.prev cached before unlinking', 'single-element splice within one list with pos == next(element) (a no-op in std::list): node orphaned, backward traversal loops'),
 'C20-B': ('C20', 'XalanMap::doCreateEntry(): the catch block no longer marks the recycled entry erased', 'a key erased recently (slot still in its bucket), re-insert into the same bucket, bucket vector full, bucket-growth allocation refused: find() returns a dead entry'),
 'C03-E': ('C03', 'ElemNumber::formatNumberList(): the guard "theVectorSize > 1" around the trailing-token detection removed', 'xsl:number whose format has no alphanumeric token at all (".", "-", ") "): the token iterator is dereferenced at end(): heap over-read, garbage output or SIGSEGV'),
 'C03-F': ('C03', 'FunctionEvaluate::doExecute(): setInStylesheet(true) on the temporary XPath', 'xalan:evaluate() / dyn:evaluate() whose string is itself a literal or a number: the result refers to a token of the destroyed XPath (use after free on first use)'),
 'C04-E': ('C04', 'XalanOutputStream::canTranscodeTo(): a 256-entry table of the transcoder answers that setOutputEncoding() never clears', 'one stream and writer receive two documents in different encodings (ISO-8859-1 then US-ASCII): characters above 0x7F go raw to the ASCII transcoder'),
 'C04-F': ('C04', 'XalanNamespacesStack::findEntry(): the backwards search runs over the whole deque instead of the range ending at m_position', 'an element declaring two or more namespaces locally is closed and a later sibling subtree needs one of them again: the declaration is omitted (not namespace-well-formed)'),
 'C05-E': ('C05', 'XercesDocumentWrapper BuildWrapperTreeWalker::startNode: the last-child link of a parent is only set for its first child', 'a Xerces-DOM-backed source and xsl:number level="any" (the backwards document walk uses getLastChild())'),
 'C05-F': ('C05', 'StdBinInputStream::readBytes(): readsome() instead of read()', 'a std::istream without look-ahead (cin, a stream buffer that only produces data when asked): end of input is reported at once'),
 'C06-E': ('C06', 'StylesheetExecutionContextDefault::reset(): cleanUpTransients() only when m_formatterListeners is non-empty', 'a transformation into a caller-supplied FormatterListener that calls key() and aborts, then the same parsed source with a stylesheet declaring the same key name differently: stale key table'),
 'C06-F': ('C06', 'StylesheetExecutionContextDefault::getNodeSetByKey(): one-entry cache of the resolved key QName keyed by the lexical name', 'key(\'p:k\') in one transformation, then a stylesheet binding p to another namespace on the same transformer'),
 'C07-E': ('C07', 'StylesheetRoot::getNodeSetByKey(): an "in construction" marker (mutable member of the shared stylesheet) raising a recursion error', 'two transformations sharing a compiled stylesheet, one entering key() while the other builds the key table of the same document; or a failure inside the key-table construction'),
 'C07-F': ('C07', 'XercesDocumentWrapper constructor: m_mappingMode(!buildWrapper) - threadSafe no longer forces a fully built wrapper', 'XercesParserLiaison::createDocument(dom, threadSafe = true, buildWrapper = false) shared by concurrent first traversals'),
 'C17-E': ('C17', 'StylesheetExecutionContextDefault::createMatchPattern(): off-by-one in the test that keeps prefixed patterns out of the pattern cache', 'xsl:number without count on a prefixed element whose local name has one character, and the same QName bound to another namespace later in the transformation'),
 'C17-F': ('C17', 'ElemNumber::findPrecedingOrAncestorOrSelf(): getParentNode() instead of DOMServices::getParentOfNode()', 'xsl:number level="any" whose current node is an attribute and whose count pattern matches elements'),
 'C19-E': ('C19', 'StylesheetExecutionContextDefault::returnXResultTreeFrag(): the key table of the fragment is destroyed but its map entry is not erased', 'key() on the nodes of a result tree fragment (exsl:node-set) in a transformation that then fails: the table is destroyed twice'),
 'C19-F': ('C19', 'XalanOutputStream::setOutputEncoding(): m_transcoder not zeroed after destroyTranscoder()', 'the encoding of one stream set twice with the second call being UTF-16 or failing (no xsl:output method and an html root element: the processor switches serializer mid-run)'),
 'C20-E': ('C20', 'XalanMap::rehash(): the new bucket table gets at least m_minBuckets buckets while entries are placed modulo the requested size', 'a copy of a small map (1-15 entries) grown past its first rehash: keys not found, duplicates'),
 'C20-F': ('C20', 'XalanVector::insert(pos, n, value): > changed to >= so an insertion that exactly fills the capacity reallocates', 'single-element insert not at end() with size()+1 == capacity(): the returned iterator dangles'),
}
for name, (prop, change, needs) in sorted(T.items()):
    d = os.path.join(HERE, 'seeded', name)
    if not os.path.isdir(d):
        continue
    ran, detected = [], []
    rp = os.path.join(d, 'results.txt')
    if os.path.exists(rp):
        for ln in open(rp):
            ln = ln.strip()
            if not ln:
                continue
            ran.append(ln[:400])
            m = re.search(r'check=(C\d+).*?exit=(\d+)', ln)
            if m and m.group(2) == '1' and m.group(1) not in detected:
                detected.append(m.group(1))
            m2 = re.match(r'(C\d+)-[AB] (C\d+) exit=1', ln)
            if m2 and m2.group(2) not in detected:
                detected.append(m2.group(2))
    meta = dict(name=name, breaks_property=prop, change=change, needs_to_manifest=needs,
                origin='written by an independent sub-agent that was given only the property text and a scratch worktree',
                confirmed='selftest/confirm_mutant.sh: patch applies, library builds, 21/21 baseline tests pass, run.sh FAILs with the change and PASSes without it',
                checks_run=ran, detected_by=detected,
                how_to_rerun='selftest/run_seeded.sh %s <check-id>   (scratch worktree under /var/tmp; /repo is never patched)' % name)
    json.dump(meta, open(os.path.join(d, 'meta.json'), 'w'), indent=1)
    print(name, 'detected_by', detected)
