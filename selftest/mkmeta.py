#!/usr/bin/env python3
"""Writes seeded/<name>/meta.json from the table below plus the recorded check results (seeded/<name>/results.txt)."""
import json, os, re
HERE = os.path.dirname(os.path.dirname(os.path.abspath(__file__)))
T = {
 'C03-A': ('C03', 'XalanUTF8Writer::write(XalanUnicodeChar): the 4-byte branch flushes only when fewer than 3 bytes remain', 'a supplementary character arriving when exactly 3 bytes are free in the 512-byte UTF-8 writer buffer (output offset 509 mod 512); the 4th byte overwrites the buffer position member and later output runs past the object'),
 'C03-B': ('C03', 'VariablesStack::reset() no longer clears the recursion guard stack', 'a transformation that fails while a lazily evaluated global variable is being evaluated (xsl:message terminate / run-time XPath error in its body), then the same compiled stylesheet on the same transformer: "circular variable definition" for ever after'),
 'C04-A': ('C04', 'XalanOutputStream::write(const XalanDOMChar*, n): writes larger than the buffer bypass it without flushing what is pending', 'UTF-16 output and a single run longer than the stream buffer (an element/attribute name or PI target of more than 512 units): bytes come out in the wrong order'),
 'C04-B': ('C04', 'XalanXMLSerializerBase::cdata() no longer resets m_nextIsRaw', 'a result tree fragment containing disable-output-escaping text copied into a cdata-section element, then any later text node: it is written unescaped'),
 'C05-A': ('C05', 'XalanSourceTreeContentHandler: m_inDTD reset moved from endDTD() to startDocument()', 'a DOCTYPE, a comment between it and the document element, and a stylesheet that looks at top-level comments: the native tree forms lose the comment, the Xerces-DOM forms keep it'),
 'C05-B': ('C05', 'XSLTEngineImpl: the PrefixResolver is no longer lent to a caller-supplied FormatterListener on the compiled-stylesheet path', 'compiled stylesheet x FormatterToXercesDOM / FormatterToSourceTree target x namespaced result nodes, compared as a tree ({ns}local), not as re-serialised text'),
 'C06-A': ('C06', 'CountersTable::reset() no longer clears the scratch list m_newFound', 'a transformation aborting inside xsl:number count-pattern evaluation of a preceding node (lazy global with xsl:message terminate), then the same compiled stylesheet and parsed source again: stale node in the counter cache (wrong numbers / use after free)'),
 'C06-B': ('C06', 'ICU collation: UCOL_CASE_FIRST only set when a case-order is requested', 'an earlier transformation sorting with lang="de" case-order="upper-first", then one on the same transformer with lang="de" and no case-order on keys differing only in case (cached collator keeps the attribute)'),
 'C07-A': ('C07', 'XercesLiaisonXalanDOMStringPool::get(): hash table searched before the mutex is taken', 'a thread-safe Xerces-DOM wrapper source shared by two threads, one pooling a new string while the other looks one up in the same bucket'),
 'C07-B': ('C07', 'XalanMap::find(): move-to-front of the found entry (const find writes)', 'a hash collision in a map of a shared compiled stylesheet / native source id table and two threads looking up keys of the same chain'),
 'C17-A': ('C17', 'CountersTable::countNode(): new counter filled by swap() instead of the reversing append', 'the first node numbered by an instruction in a sibling group is not the first counted node (numbering under xsl:sort / reverse order); later numbers in that group are wrong; document-order numbering unaffected'),
 'C17-B': ('C17', 'ElemNumber value= branch: std::rint instead of XPath round()', 'xsl:number value= with a value whose fraction is exactly .5 and an even integer part (0.5, 2.5, ...)'),
 'C19-A': ('C19', 'ReusableArenaAllocator::ownsObject(): the block where the forward scan stopped is never examined', 'at least 10 result tree fragments alive at the same time (arena block size): a fragment is reported as not owned and deleted with the global delete (manager memory freed elsewhere, members freed twice)'),
 'C19-B': ('C19', 'XObjectFactoryDefault::doReturnObject(): cache test size() > max instead of >=', 'more than 40 numbers/strings alive and released back to back (recursion deeper than 40) AND the one allocation that grows the cache inside ~XObjectPtr is the refused one: std::terminate'),
 'C20-A': ('C20', 'XalanVector range insert: tail shifted with std::copy instead of std::copy_backward', 'range insert in the middle without reallocation, more than 2n elements to the right, element type not trivially copyable'),
 'C20-B': ('C20', 'XalanMap::doCreateEntry(): the catch block no longer marks the recycled entry erased', 'a key erased recently (slot still in its bucket), re-insert into the same bucket, bucket vector full, bucket-growth allocation refused: find() returns a dead entry'),
}
for name, (prop, change, needs) in sorted(T.items()):
    d = os.path.join(HERE, 'seeded', name)
    if not os.path.isdir(d):
        continue
    ran, detected = [], []
    rp = os.path.join(d, 'results.txt')
    if os.path.exists(rp):
        for ln in open(rp):
            ln = ln.strip()
            if not ln:
                continue
            ran.append(ln[:400])
            m = re.search(r'check=(C\d+).*?exit=(\d+)', ln)
            if m and m.group(2) == '1' and m.group(1) not in detected:
                detected.append(m.group(1))
            m2 = re.match(r'(C\d+)-[AB] (C\d+) exit=1', ln)
            if m2 and m2.group(2) not in detected:
                detected.append(m2.group(2))
    meta = dict(name=name, breaks_property=prop, change=change, needs_to_manifest=needs,
                origin='written by an independent sub-agent that was given only the property text and a scratch worktree',
                confirmed='selftest/confirm_mutant.sh: patch applies, library builds, 21/21 baseline tests pass, run.sh FAILs with the change and PASSes without it',
                checks_run=ran, detected_by=detected,
                how_to_rerun='selftest/run_seeded.sh %s <check-id>   (scratch worktree under /var/tmp; /repo is never patched)' % name)
    json.dump(meta, open(os.path.join(d, 'meta.json'), 'w'), indent=1)
    print(name, 'detected_by', detected)
