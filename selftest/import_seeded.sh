#!/bin/bash
# import_seeded.sh <worktree> <A|B> <seeded-name>: confirm a sub-agent's change in its scratch worktree, then copy it to seeded/<name>/
WT="$1"; X="$2"; N="$3"; cd "$(dirname "$0")/.."
L=$(selftest/confirm_mutant.sh "$WT" "$X" | tail -1); echo "$L"
case "$L" in *"applies=yes builds=yes ctest=[100% tests passed, 0 tests failed out of 21] demo_mut=FAIL demo_clean=PASS"*) ;; *) echo "NOT CONFIRMED"; exit 1;; esac
mkdir -p "seeded/$N"; cp -r "$WT/_mutant/$X/." "seeded/$N/"; find "seeded/$N" -type f \( -name demo -o -name '*.o' -o -name 'a.out' \) -delete
find "seeded/$N" -type f -size +300k -print -delete
echo "$L" > "seeded/$N/confirm.txt"; echo "IMPORTED $N"
