#!/bin/bash
# Sensitivity self-test: apply one patch to a scratch worktree of /repo (never /repo itself), point a check at it,
# report its exit code, remove worktree and build tree.
#   selftest/sensitivity.sh <ID> <patch-file> [-R] [extra check args...]
set -u
ID="$1"; PATCH="$(readlink -f "$2")"; shift 2
REV=""; if [ "${1:-}" = "-R" ]; then REV="-R"; shift; fi
HERE="$(cd "$(dirname "$0")/.." && pwd)"
TAG="mut-$ID-$$"
WT="/var/tmp/$TAG"; BLD="/var/tmp/$TAG-build"
git -C /repo worktree add -q --detach "$WT" HEAD || exit 2
trap 'git -C /repo worktree remove --force "$WT" 2>/dev/null; rm -rf "$WT" "$BLD"; rm -rf "$HERE/replays-mut/$TAG"' EXIT
if ! git -C "$WT" apply $REV "$PATCH"; then echo "patch does not apply"; exit 2; fi
cd "$HERE"
VERIF_REPO="$WT" VERIF_BUILD="$BLD" VERIF_EVIDENCE_DIR="$BLD/evidence" VERIF_REPLAY_DIR="$BLD/replays" ./check "$ID" "$@"
RC=$?
echo "sensitivity: check $ID on mutated tree exited $RC (1 = violation detected)"
if [ -d "$BLD/replays" ]; then mkdir -p "$HERE/.run/mutant-replays"; cp -r "$BLD/replays/." "$HERE/.run/mutant-replays/" 2>/dev/null; fi
exit $RC
