#!/bin/bash
# run_seeded.sh <seeded-name> <check-id> [check args]: runs one check against one seeded change, appends the outcome to seeded/<name>/results.txt
N="$1"; ID="$2"; shift 2
cd "$(dirname "$0")/.."
OUT=$(selftest/sensitivity.sh "$ID" "seeded/$N/patch.diff" "$@" 2>&1)
RC=$(echo "$OUT" | grep -o "exited [0-9]*" | tail -1 | cut -d' ' -f2)
SIGS=$(echo "$OUT" | grep "^   class=" | sed 's/^ *//' | head -5 | tr '\n' ';')
echo "$(date -u +%FT%TZ) check=$ID args='$*' exit=$RC $SIGS" >> "seeded/$N/results.txt"
echo "SEEDED $N check=$ID exit=$RC $SIGS"
