#!/bin/bash
# Confirm a seeded change produced by a sub-agent, in the agent's scratch worktree:
#   patch applies; library compiles; 21/21 baseline tests pass; demonstration FAILS with the change and PASSES without.
# usage: confirm_mutant.sh <worktree> <A|B>      prints one line "CONFIRM <wt> <X>: applies=.. builds=.. ctest=.. demo_mut=FAIL|PASS demo_clean=PASS|FAIL"
WT="$1"; X="$2"; M="$WT/_mutant/$X"
cd "$WT" || exit 2
git checkout -q -- . 2>/dev/null
applies=no; builds=no; ct="?"; dm="?"; dc="?"
if git apply --check "$M/patch.diff" 2>/dev/null; then applies=yes; git apply "$M/patch.diff"; fi
if [ $applies = yes ]; then
  if cmake --build _build -- -j8 >/tmp/confirm-build.$$.log 2>&1; then builds=yes; fi
  if [ $builds = yes ]; then
    ct=$(cd _build && ctest -j8 --timeout 900 2>&1 | grep -o "[0-9]*% tests passed, [0-9]* tests failed out of [0-9]*")
    (cd "$M" && chmod +x run.sh && timeout 900 ./run.sh "$WT/_build" >/tmp/confirm-demo.$$.log 2>&1); rc=$?; if [ $rc -eq 0 ]; then dm=PASS; else dm=FAIL; fi
  fi
fi
git checkout -q -- .
if [ -d _build_clean ]; then cmake --build _build_clean -- -j8 >/dev/null 2>&1; CB=_build_clean; else cmake --build _build -- -j8 >/dev/null 2>&1; CB=_build; fi
(cd "$M" && timeout 900 ./run.sh "$WT/$CB" >/tmp/confirm-demo-clean.$$.log 2>&1); rc=$?; if [ $rc -eq 0 ]; then dc=PASS; else dc=FAIL; fi
echo "CONFIRM $WT $X: applies=$applies builds=$builds ctest=[$ct] demo_mut=$dm demo_clean=$dc"
rm -f /tmp/confirm-*.$$.log
