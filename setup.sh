#!/bin/bash
# MANIFEST.setup_cmd: build both sanitizer flavours of libxalan-c from /repo's working tree and all drivers.  Offline.
cd "$(dirname "$0")"
./build.sh asan || exit 2
if [ -f sim/targets-tsan.cmake ]; then ./build.sh tsan || exit 2; fi
echo "setup ok"
